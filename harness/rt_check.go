package main

import (
	"context"
	"fmt"
	"reflect"
	"sort"
	"strconv"
	"strings"
	"time"

	"github.com/vimeo/dials"
)

// rtQueueCap: capacity of the callback queue (dials.go: make(chan ..., 64); the model takes it from the regenerated facts)
const rtQueueCap = 64

func init() {
	for _, id := range []string{"C04", "C05", "C06", "C07", "C08", "C09"} {
		id := id
		register(id, func(c *Ctx) { checkRuntime(c, id) })
	}
}

const rtRule = "controlled schedules of the real library (every goroutine parked at verif hook points, one actor released per step, " +
	"PRNG-chosen with six weight profiles incl. starved monitor / starved callback goroutine / cancel-heavy) over 1-3 watching sources and 2-5 clients issuing " +
	"View, Events, (blocking) reports of good/invalid/unstackable values, source errors, Done, RegisterCallback with fresh/stale/zero/future serials, unregister (also twice), " +
	"EnableVerification and context cancellation, all four delay x suppress combinations and SkipInitialVerification; after each step the implementation's observable state " +
	"must equal the Lean model's (one driver request per step); at the end the property's direct oracle is evaluated on the recorded history. " +
	"non-trivial: at least 2 installs and at least 1 rejected update or callback registration; distinct = by label trace"

func slotsValid(cfg string) bool {
	for _, p := range strings.Split(cfg, ".") {
		v, _ := strconv.Atoi(p)
		if v%4 == 1 {
			return false
		}
	}
	return true
}

// rtSliceN > 0: another property's check borrows this many controlled schedules (and nothing else) of `prop`'s stream
var rtSliceN int

func checkRuntime(c *Ctx, prop string) {
	rng := c.RNG
	res := c.Res
	n := c.scale(160, 6000)
	if rtSliceN > 0 {
		n = rtSliceN
	} else {
		res.Rule = rtRule
	}
	if rtSliceN == 0 {
	if prop == "C09" || prop == "C04" {
		rtNoWatch(c, c.scale(300, 10000))
	}
	if prop == "C04" || prop == "C05" {
		rtReuse(c, c.scale(80, 2500))
	}
	if prop == "C04" {
		rtSkipInitEqual(c, c.scale(10, 100))
	}
	if prop == "C06" || prop == "C05" {
		rtZeroSize(c, c.scale(20, 400))
	}
	if prop == "C05" || prop == "C08" {
		rtSlots(c, c.scale(18, 300), prop == "C08")
	}
	if prop == "C05" {
		rtRefused(c, c.scale(4, 40), 150)
		rtTornView(c, c.scale(6, 60))
	}
	if prop == "C06" {
		rtUnregRace(c, c.scale(20, 300))
	}
	if prop == "C08" {
		rtShutdownRace(c, c.scale(150, 3000))
		// API calls return at the latest when their own context ends, the monitor is never left blocked, and a
		// watcher's Done lets the goroutines exit - also for the library's own wrapper around WatchArgs, the Blank
		c20BlankCancel(c, rng.Fork(), c.scale(25, 400))
		c20BlankSecondConfig(c, rng.Fork(), c.scale(25, 400))
		// a watcher installed through a Blank lives and dies with the Config context (not with the SetSource call's):
		// it must not outlive the shutdown, nor stop before it
		for i := c.scale(150, 2500); i > 0; i-- {
			c20Blank(c, rng.Fork())
		}
	}
	if prop == "C09" {
		rtReEnable(c, c.scale(40, 1000))
		// ez is the library's own user of DelayInitialVerification + CallGlobalCallbacksAfterVerificationEnabled: its
		// re-stack with the file happens while the delay is in force, so no global callback may see it - whether or
		// not the file is watched (a slice of the C18 stream; its callback and Verify-receiver oracles apply)
		runC18(c)
	}
	if prop == "C07" || prop == "C04" {
		// (C04: a rejected update's blocking report returns the error also when the watcher sits behind a wrapper)
		// a blocking report made through a transforming wrapper (tag reformatting source around a watcher or a
		// Blank) must keep its meaning: the C20 stream with a real wrapped Dials next to a native one
		for i := c.scale(25, 400); i > 0; i-- {
			c20Transforming(c, rng.Fork(), false)
		}
		if prop == "C07" {
			// Blank.SetSource is a blocking report: nil means "stacked, and what View returns" - also the n-th time
			// for the same source object
			c20BlankSameSource(c, rng.Fork(), c.scale(30, 500))
			c20BlankWatcherInner(c, rng.Fork(), c.scale(40, 600))
		}
	}
	}
	t0 := time.Now()
	afterBad := 0
	for i := 0; i < n; i++ {
		cfg := rtConfig{
			nsrc: 1 + rng.Intn(3), nclients: 2 + rng.Intn(4), steps: 60 + rng.Intn(140),
			skipInit: rng.Chance(25), delay: rng.Chance(45), suppress: rng.Chance(50),
			profile: rtProfiles[rng.Intn(len(rtProfiles))], stuck: rng.Chance(15), noDone: rng.Chance(60), focus: prop,
		}
		if prop == "C09" {
			cfg.delay = rng.Chance(85)
		}
		if (prop == "C08" || prop == "C06" || prop == "C07") && i%40 == 7 && afterBad == 0 {
			// saturation: a callback that never returns, then enough installs to fill the callback queue
			// (capacity from the regenerated facts), then more updates incl. rejected ones: the monitor must
			// keep installing and must never wait for the queue
			cfg = rtConfig{nsrc: 1 + rng.Intn(2), nclients: 2, steps: 1600, suppress: rng.Chance(50),
				profile: rtProfile{"saturate", 30, 2, 20, 20, 20, 0, 0}, stuck: true, noDone: true, focus: prop, saturate: true}
		}
		cfg.init = make([]int, cfg.nsrc)
		for k := range cfg.init {
			cfg.init[k] = 4 * rng.Intn(50)
			if rng.Chance(12) {
				cfg.init[k]++ // invalid initial value
			}
		}
		c.Current(map[string]any{"stream": "runtime schedules", "index": i,
			"params": fmt.Sprintf("skipInit=%v delay=%v suppress=%v sources=%d clients=%d profile=%s stuckCallback=%v", cfg.skipInit, cfg.delay, cfg.suppress, cfg.nsrc, cfg.nclients, cfg.profile.name, cfg.stuck),
			"init":   cfg.init, "trace_file": "current-trace.log"})
		r := runSchedule(c, rng.Fork(), cfg)
		res.TracesVsImpl++
		res.Count("profile/" + cfg.profile.name)
		res.Count(fmt.Sprintf("params/skipInit=%v,delay=%v,suppress=%v", cfg.skipInit, cfg.delay, cfg.suppress))
		res.Count(fmt.Sprintf("sources=%d", cfg.nsrc))
		for k, v := range r.kindCount {
			res.Dist["steps/"+k] += v
		}
		for k, v := range r.opCount {
			res.Dist["ops/"+k] += v
		}
		if r.configErr != "" {
			res.Count("configErr/" + r.configErr)
		}
		if cfg.saturate {
			full, rejectedWhileFull, srcErrWhileFull := false, false, false
			for _, l := range r.trace {
				if strings.Contains(l, fmt.Sprintf(" q=%d/", rtQueueCap)) {
					full = true
					if strings.Contains(l, "mon=submit:verifyErr") || strings.Contains(l, "mon=submit:stackErr") {
						rejectedWhileFull = true
					}
					if strings.Contains(l, "mon=submit:srcErr") || strings.Contains(l, "mon=got:err") || strings.Contains(l, "mon=submitSrcErr") {
						srcErrWhileFull = true
					}
				}
			}
			res.Count(fmt.Sprintf("saturate/queue-full=%v,rejected-update-while-full=%v,source-error-while-full=%v", full, rejectedWhileFull, srcErrWhileFull))
		}
		rejected := 0
		for _, u := range r.updates {
			res.Count("update/" + u.outcome)
			if u.outcome != "installed" {
				rejected++
			}
		}
		sample := map[string]any{"params": fmt.Sprintf("skipInit=%v delay=%v suppress=%v sources=%d clients=%d profile=%s stuckCallback=%v", cfg.skipInit, cfg.delay, cfg.suppress, cfg.nsrc, cfg.nclients, cfg.profile.name, cfg.stuck),
			"init": cfg.init, "trace_head": head(r.trace, 40), "steps": len(r.trace)}
		res.Case(strings.Join(r.trace, "\n"), len(r.installs) >= 2 && (rejected > 0 || len(r.regOrder)+len(r.handleIDs) > 0), sample)
		full := map[string]any{"params": sample["params"], "init": cfg.init, "trace": r.trace, "log": tail(r.log, 120)}
		if r.mismatch != "" {
			res.Add(Finding{Kind: "disagreement", What: "runtime model != implementation: " + r.mismatch, Case: full})
		}
		for _, v := range rtOracle(r, prop) {
			res.Add(Finding{Kind: "violation", What: v, Case: full})
		}
		if res.Bad() > 0 && !c.Search {
			// a disagreement alone is a broken tie; look on (a bounded number of further schedules, continued on the
			// implementation alone after their first mismatch) for a schedule in which the property's own oracle fails
			if hasViolation(res) || afterBad >= 150 {
				break
			}
			afterBad++
		}
		if c.Search && (hasViolation(res) || time.Since(t0) > searchBudget(c)) {
			break
		}
	}
}

// rtNoWatch: Config without any watching source (no monitor goroutine): Config's own verification and
// EnableVerification's inline path, vs the model (configInit / enableNoWatch) and vs the oracle.
func rtNoWatch(c *Ctx, n int) {
	rng := c.RNG
	res := c.Res
	for i := 0; i < n; i++ {
		nsrc := 1 + rng.Intn(3)
		skipInit, delay, suppress := rng.Chance(30), rng.Chance(60), rng.Chance(50)
		init := make([]int, nsrc)
		valid := true
		for k := range init {
			init[k] = 4 * rng.Intn(50)
			if rng.Chance(25) {
				init[k]++
				valid = false
			}
		}
		r := &rtRun{c: c, nsrc: nsrc, actors: map[string]*actor{}, cfg: rtConfig{nsrc: nsrc}}
		rtCur = r
		srcs := make([]dials.Source, nsrc)
		slots := make([]string, nsrc)
		for k := range srcs {
			srcs[k] = &rtStatic{idx: k, v: init[k]}
			slots[k] = fmt.Sprint(init[k])
		}
		p := dials.Params[RC]{SkipInitialVerification: skipInit, DelayInitialVerification: delay, CallGlobalCallbacksAfterVerificationEnabled: suppress}
		cs := map[string]any{"stream": "no-watching-source", "params": fmt.Sprintf("skipInit=%v delay=%v suppress=%v", skipInit, delay, suppress), "init": init}
		var impl string
		d, err := p.Config(context.Background(), &RC{N: &RCN{}, Ṅ: &RCN{}}, srcs...)
		before := len(r.verifyCalls)
		if err != nil {
			impl = "configErr " + r.errClass(err)
		} else {
			cfg, tok, eerr := d.EnableVerification(context.Background())
			n := len(r.verifyCalls) - before
			if eerr != nil {
				impl = fmt.Sprintf("ok enErr verifies=%d", n)
			} else {
				impl = fmt.Sprintf("ok enOk:%d:%s verifies=%d", dials.VerifCfgSerial(tok), r.cfgStr(cfg), n)
			}
			// oracle
			if delay && before != 0 {
				res.Add(Finding{Kind: "violation", What: "Verify was invoked by Config although verification is delayed", Case: cs})
			}
			if delay && n != 1 {
				res.Add(Finding{Kind: "violation", What: fmt.Sprintf("EnableVerification invoked Verify %d times on the installed config (expected exactly once)", n), Case: cs})
			}
			if delay && !valid && eerr == nil {
				res.Add(Finding{Kind: "violation", What: "EnableVerification succeeded on a config that does not verify", Case: cs, Observed: impl})
			}
			if eerr == nil && (cfg == nil || r.cfgStr(cfg) != strings.Join(slots, ".")) {
				res.Add(Finding{Kind: "violation", What: "EnableVerification did not return the installed config", Case: cs, Observed: impl})
			}
			if !delay && (n != 0 || eerr != nil) {
				// documented: "If DelayInitialVerification is not set, returns successfully without verifying the config"
				res.Add(Finding{Kind: "violation", What: fmt.Sprintf("verification was never delayed, yet EnableVerification invoked Verify %d time(s) and returned error %v (it must be a successful no-op)", n, eerr), Case: cs, Observed: impl})
			}
			if !delay && !skipInit && !valid {
				res.Add(Finding{Kind: "violation", What: "Config succeeded with an initial stack that does not verify", Case: cs})
			}
		}
		rtCur = nil
		model := c.Drv.Ask(fmt.Sprintf("rt nowatch %s %s %s %s", b01(skipInit), b01(delay), b01(suppress), strings.Join(slots, ".")))
		res.Count("nowatch/" + strings.Fields(impl)[0] + "/" + strings.SplitN(strings.Fields(impl)[1], ":", 2)[0])
		if impl != model {
			res.Add(Finding{Kind: "disagreement", What: "no-watcher path: model != implementation", Case: cs, Observed: impl, Model: model})
		}
		res.Case("nowatch|"+cs["params"].(string)+"|"+strings.Join(slots, "."), delay, cs)
	}
}

func hasViolation(res *Result) bool {
	for _, f := range res.Findings {
		if f.Kind == "violation" {
			return true
		}
	}
	return false
}

// searchBudget bounds the witness search (it only runs when a proof or tie is already broken).
func searchBudget(c *Ctx) time.Duration {
	if c.Tier == "thorough" {
		return 15 * time.Minute
	}
	return 3 * time.Minute
}

func head(s []string, n int) []string {
	if len(s) > n {
		return s[:n]
	}
	return s
}
func tail(s []string, n int) []string {
	if len(s) > n {
		return s[len(s)-n:]
	}
	return s
}

// rtOracle evaluates the property directly on the implementation's recorded history
// (no use of the model).  Returns human-readable violations.
func rtOracle(r *rtRun, prop string) []string {
	var out []string
	bad := func(f string, a ...any) { out = append(out, fmt.Sprintf(f, a...)) }
	if r.d == nil {
		if (prop == "C04" || prop == "C08") && r.failedCfgLeak != "" {
			bad("Config returned an error (%s), yet a goroutine of the library is running for the refused configuration while the Config context is alive: %s", r.configErr, r.failedCfgLeak)
		}
		// Config failed: C04 says it must fail iff the initial stack does not verify (while initial verification is on) or does not stack
		if prop == "C04" {
			valid := true
			for _, v := range r.cfg.init {
				if v%4 == 1 {
					valid = false
				}
			}
			if valid {
				bad("Config failed (%s) although the initial stack is valid", r.configErr)
			} else if r.cfg.skipInit || r.cfg.delay {
				bad("Config failed (%s) although initial verification is skipped/delayed", r.configErr)
			}
		}
		return out
	}
	if prop == "C04" && !r.cfg.skipInit && !r.cfg.delay && !slotsValid(r.initCfg) {
		bad("Config succeeded with an initial stack that does not verify: %s", r.initCfg)
	}
	serialOf := map[*RC]uint64{r.initPtr: 0}
	cfgOfSerial := map[uint64]*RC{0: r.initPtr}
	for _, in := range r.installs {
		serialOf[in.ptr] = in.serial
		cfgOfSerial[in.serial] = in.ptr
	}
	if (prop == "C08" || prop == "C07" || prop == "C05" || prop == "C06" || prop == "C09" || prop == "C04") && r.monBlockedAt != "" {
		bad("the monitor goroutine was blocked outside its top-level select, after hook point %s: updates, Done, EnableVerification and blocking reports all wait for it", r.monBlockedAt)
	}
	if prop == "C08" && r.monAfterAllDone != "" {
		bad("every watching source's Done was accepted, yet the monitor went back to waiting instead of exiting (the Config context is alive): %s", r.monAfterAllDone)
	}
	if prop == "C04" || prop == "C05" {
		// every version ever rendered (views, callbacks, events, verify) is re-rendered at the end as well:
		// an installed version must not change after the fact
		for _, in := range r.installs {
			if in.ptr != nil {
				if now := r.cfgStr(in.ptr); now != in.cfg {
					bad("installed version %d was %s when it was stored and reads %s at the end of the run", in.serial, in.cfg, now)
				}
			}
		}
		if r.initPtr != nil {
			_ = r.cfgStr(r.initPtr)
		}
		if len(r.mirrorBad) > 0 {
			bad("an observable config is not the stack of any source values (memory shared between versions was written to): %s", r.mirrorBad[0])
		}
	}
	switch prop {
	case "C04":
		for _, in := range r.installs {
			// without DelayInitialVerification the monitor verifies every re-stack, whatever it believes itself
			if (!in.skip || !r.cfg.delay) && !slotsValid(in.cfg) {
				bad("version %d (%s) was installed while verification was active but does not verify", in.serial, in.cfg)
			}
			if strings.Contains(in.cfg, "-") {
				bad("nil config installed")
			}
		}
		known := map[string]bool{r.initCfg: true}
		for _, in := range r.installs {
			known[in.cfg] = true
		}
		for _, o := range r.seenCfgs {
			if !known[o.cfg] {
				bad("config %s observed via %s at step %d was never installed", o.cfg, o.via, o.step)
			}
		}
		// rejected updates: error callbacks carry the current config and the rejected one iff stacking succeeded
		for _, d := range r.deliveries {
			if d.h != -2 {
				continue
			}
			switch d.err {
			case "verify":
				if d.new == "-" || slotsValid(d.new) {
					bad("OnWatchedError(verify) got newConfig=%s (expected the rejected, invalid config)", d.new)
				}
			case "stack":
				if d.new != "-" {
					bad("OnWatchedError(stack) got a non-nil newConfig %s", d.new)
				}
			}
			if _, ok := serialOf[d.oldC]; !ok {
				bad("OnWatchedError oldConfig %s is not an installed version", d.old)
			}
		}
		out = append(out, rtBlockingOracle(r)...)
		out = append(out, rtRejectedDelivery(r)...)
		// a rejected update must not change the view: serial of installs is dense (checked in C05) and
		// every update has exactly one outcome
		for _, u := range r.updates {
			if u.outcome == "" && r.shutdownOK {
				bad("update src=%d v=%d has neither been installed nor rejected", u.src, u.v)
			}
			if u.outcome == "installed" && !u.skip && u.v%4 == 1 {
				bad("invalid value %d from source %d was installed while verification was active", u.v, u.src)
			}
		}
	case "C05":
		for _, in := range r.installs {
			// "... or the last view that verified": a stack that does not verify is never installed while
			// verification is in force (always, without DelayInitialVerification)
			if (!in.skip || !r.cfg.delay) && !slotsValid(in.cfg) {
				bad("version %d (%s) does not verify, yet it replaced the last verified view (verification was in force)", in.serial, in.cfg)
			}
		}
		for i, in := range r.installs {
			if in.serial != uint64(i+1) {
				bad("install #%d has serial %d (serials must count installs)", i+1, in.serial)
			}
		}
		// a report is either taken (nil: the monitor has the value and will re-stack with it) or refused (an error: it
		// never reaches the monitor) - a report that was refused with a context error must not be re-stacked anyway
		{
			type key struct{ src, v int }
			taken, refused, got := map[key]int{}, map[key]int{}, map[key]int{}
			for _, ret := range r.returns {
				if ret.op.Kind == "report" && !ret.op.Blocking {
					if ret.res == "nil" {
						taken[key{ret.op.Src, ret.op.V}]++
					} else {
						refused[key{ret.op.Src, ret.op.V}]++
					}
				}
			}
			for _, u := range r.updates {
				if !u.blocking {
					got[key{u.src, u.v}]++
				}
			}
			for k, n := range got {
				if n > taken[k] && refused[k] > 0 && r.hang == "" {
					// (pending reports that never returned are not in r.returns: only count what did return)
					pending := 0
					for _, cl := range r.clients {
						cl.mu.Lock()
						if (cl.status == "running" || cl.status == "returned") && cl.op.Kind == "report" && !cl.op.Blocking && cl.op.Src == k.src && cl.op.V == k.v {
							pending++
						}
						cl.mu.Unlock()
					}
					if n > taken[k]+pending {
						bad("ReportNewValue(src=%d, v=%d) returned an error %d time(s) and nil %d time(s), but the monitor received that value %d time(s): a report that was refused was re-stacked anyway", k.src, k.v, refused[k], taken[k], n)
					}
				}
			}
		}
		last := map[int]uint64{}
		for _, ret := range r.returns {
			if ret.op.Kind == "view" {
				var ser uint64
				var cfg string
				fmt.Sscanf(strings.Replace(ret.res, ":", " ", -1), "ver %d %s", &ser, &cfg)
				p, ok := cfgOfSerial[ser]
				if !ok || r.cfgStr(p) != cfg {
					bad("ViewVersion returned serial %d with config %s which do not belong together", ser, cfg)
				}
				if ser < last[ret.client] {
					bad("client %d saw the serial go backwards: %d after %d", ret.client, ser, last[ret.client])
				}
				last[ret.client] = ser
			}
		}
		// Events: strictly increasing subsequence of installs, in the order in which the receives happened
		// (the harness acknowledges results later and in any order)
		var lastEv uint64
		byRet := append([]rtReturn(nil), r.returns...)
		sort.SliceStable(byRet, func(i, j int) bool { return byRet[i].retAt < byRet[j].retAt })
		for _, ret := range byRet {
			if ret.op.Kind == "events" && strings.HasPrefix(ret.res, "ev:") {
				cfg := ret.res[3:]
				found := false
				for _, in := range r.installs {
					if in.serial > lastEv && in.cfg == cfg {
						lastEv, found = in.serial, true
						break
					}
				}
				if !found {
					bad("Events delivered %s which is not a later installed version (last serial %d)", cfg, lastEv)
				}
			}
		}
		// incremental == fresh: the final view equals a fresh Config over the latest values when that stack is good
		if r.shutdownOK {
			out = append(out, rtFreshCompare(r)...)
		}
	case "C06":
		out = append(out, rtCallbackOracle(r, serialOf, cfgOfSerial)...)
	case "C07":
		out = append(out, rtBlockingOracle(r)...)
		if r.hang != "" {
			bad("the monitor (or a caller) is left blocked: %s", strings.SplitN(r.hang, "\n", 2)[0])
		}
	case "C08":
		for _, p := range r.panics {
			bad("panic: %s", p)
		}
		if r.hang != "" {
			bad("hang: %s", strings.SplitN(r.hang, "\n", 2)[0])
		}
		if r.leak != "" {
			bad("goroutine leak after shutdown: %s", strings.SplitN(r.leak, "\n", 3)[0])
		}
		for _, ret := range r.returns {
			if strings.HasPrefix(ret.res, "panic:") {
				bad("API call %s panicked: %s", ret.op.Kind, ret.res)
			}
		}
		for _, lr := range r.lateResults {
			bad("API call after shutdown: %s", lr)
		}
	case "C09":
		if r.cfg.delay {
			for _, v := range r.verifyCalls {
				if v.beforeEnableCall {
					bad("Verify(%s) was invoked at step %d before EnableVerification was ever called", v.cfg, v.step)
				}
			}
		}
		// after a successful enable every install is verified (skip=false); enable success returns the installed version
		for _, ret := range r.returns {
			if ret.op.Kind == "enable" && strings.HasPrefix(ret.res, "enOk:") {
				var ser uint64
				var cfg string
				fmt.Sscanf(strings.Replace(ret.res, ":", " ", -1), "enOk %d %s", &ser, &cfg)
				p, ok := cfgOfSerial[ser]
				if !ok || r.cfgStr(p) != cfg {
					bad("EnableVerification returned serial %d with config %s which is not that installed version", ser, cfg)
				}
				if r.cfg.delay && !slotsValid(cfg) {
					bad("EnableVerification succeeded on a config that does not verify: %s", cfg)
				}
			}
		}
		// an EnableVerification call that reports a verification failure was answered for ITS OWN request: the
		// monitor ran a failing Verify between the call's begin and its return (an answer left over from an earlier,
		// abandoned call would break "on failure returns the error and ... can be retried")
		for _, ret := range r.returns {
			if ret.op.Kind != "enable" || ret.res != "enErr" || ret.op.Begin == 0 {
				continue
			}
			end := ret.retAt
			if end == 0 {
				end = ret.step
			}
			found := false
			for _, v := range r.verifyCalls {
				if !v.ok && v.step >= ret.op.Begin-1 && v.step <= end {
					found = true
				}
			}
			if !found {
				bad("EnableVerification (begun at step %d, returned at step %d) reported a verification failure, but no failing Verify ran in between: the answer belongs to another call", ret.op.Begin, end)
			}
		}
		// a rejected update's error reaches OnWatchedError whenever the monitor announced it (it announces it
		// unless the delay is in force and the option is set)
		out = append(out, rtRejectedDelivery(r)...)
		// withholding of global callbacks: only while delay in force and option set
		for _, g := range r.cbGot {
			if g.kind == "new" && g.supp && !(r.cfg.delay && r.cfg.suppress) {
				bad("new-config event %d had global callbacks suppressed although delay=%v suppress=%v", g.serial, r.cfg.delay, r.cfg.suppress)
			}
		}
		// source-reported errors are forwarded exactly when not (delay in force and option set)
		wantFwd, gotFwd := 0, 0
		for _, e := range r.srcErrs {
			if !(e.skip && r.cfg.suppress) {
				wantFwd++
			}
		}
		for _, s := range r.submits {
			if s.kind == "sourceErr" {
				gotFwd++
			}
		}
		if r.mismatch == "" || r.shutdownOK {
			if wantFwd != gotFwd {
				bad("%d source-reported errors should have been forwarded to OnWatchedError (delay in force and suppress option not both true) but %d were", wantFwd, gotFwd)
			}
		}
	}
	return out
}

// rtRejectedDelivery: unless the queue overflowed, every rejected update whose error event the monitor submitted
// before the Config context ended reaches OnWatchedError (the callback goroutine drains its queue before exiting)
func rtRejectedDelivery(r *rtRun) []string {
	var out []string
	bad := func(f string, a ...any) { out = append(out, fmt.Sprintf(f, a...)) }
	// unless the queue overflowed, every rejected update whose error event was submitted before the Config
	// context ended reaches OnWatchedError (the callback goroutine drains its queue before exiting)
	if r.shutdownOK && !r.cfg.stuck {
		submitted, delivered := 0, 0
		for _, sb := range r.submits {
			if (sb.kind == "stackErr" || sb.kind == "verifyErr") && sb.qlen < 64 && sb.doneStep != 0 && (r.rootCancelStep == 0 || sb.doneStep < r.rootCancelStep) {
				submitted++
			}
		}
		for _, d := range r.deliveries {
			if d.h == -2 && (d.err == "stack" || d.err == "verify") {
				delivered++
			}
		}
		if delivered < submitted {
			bad("%d rejected updates had their error event submitted (queue not full, Config context alive) but OnWatchedError was called only %d times for stack/verify errors", submitted, delivered)
		}
	}
	return out
}

// rtBlockingOracle: what a blocking report returned vs what the monitor did with that update
func rtBlockingOracle(r *rtRun) []string {
	var out []string
	bad := func(f string, a ...any) { out = append(out, fmt.Sprintf(f, a...)) }
	for _, ret := range r.returns {
		if ret.op.Kind != "report" || !ret.op.Blocking {
			continue
		}
		var u *rtUpdate
		for _, x := range r.updates {
			if x.blocking && x.src == ret.op.Src && x.v == ret.op.V {
				u = x
			}
		}
		switch ret.res {
		case "nil":
			if u == nil || u.outcome != "installed" {
				bad("blocking report src=%d v=%d returned nil but its value was not installed", ret.op.Src, ret.op.V)
			} else {
				for _, in := range r.installs {
					if in.serial != u.serial {
						continue
					}
					// "stacked" means: the version installed for this report carries the reported value in the
					// reporting source's place (also when that source has called Done before)
					if slots := strings.Split(in.cfg, "."); ret.op.Src < len(slots) && slots[ret.op.Src] != strconv.Itoa(ret.op.V) {
						bad("blocking report src=%d v=%d returned nil, but the version installed for it (serial %d) is %s: the reported value is not in it", ret.op.Src, ret.op.V, in.serial, in.cfg)
					}
					// verification is in force from the start: a nil answer means the stacked config verified
					if !r.cfg.delay && !slotsValid(in.cfg) {
						bad("blocking report src=%d v=%d returned nil although the stacked config %s does not verify (no delayed verification configured)", ret.op.Src, ret.op.V, in.cfg)
					}
				}
			}
		case "stackErr", "verifyErr":
			if u == nil || u.outcome != ret.res {
				o := "<never received>"
				if u != nil {
					o = u.outcome
				}
				bad("blocking report src=%d v=%d returned %s but the monitor's outcome was %s", ret.op.Src, ret.op.V, ret.res, o)
			}
		case "ctxErr":
		default:
			bad("blocking report returned %s", ret.res)
		}
	}
	return out
}

// rtCallbackOracle re-derives, from the sequence of events the callback goroutine dequeued, which
// registered callbacks must have been called with what, and compares with the recorded deliveries.
func rtCallbackOracle(r *rtRun, serialOf map[*RC]uint64, cfgOfSerial map[uint64]*RC) []string {
	var out []string
	bad := func(f string, a ...any) { out = append(out, fmt.Sprintf(f, a...)) }
	lastPer := map[int]uint64{}
	hasPer := map[int]bool{}
	regSer := map[int]uint64{}
	for _, g := range r.cbGot {
		if g.kind == "reg" {
			regSer[g.h] = g.serial
		}
	}
	for _, d := range r.deliveries {
		if d.h == -2 {
			continue
		}
		ns, ok := serialOf[d.newC]
		if !ok {
			bad("callback %d received a config that was never installed (%s)", d.h, d.new)
			continue
		}
		if hasPer[d.h] && ns <= lastPer[d.h] {
			bad("callback %d received serial %d after serial %d (stale or duplicate)", d.h, ns, lastPer[d.h])
		}
		lastPer[d.h], hasPer[d.h] = ns, true
		if d.h >= 0 {
			if ns <= regSer[d.h] {
				bad("callback %d registered with serial %d received serial %d", d.h, regSer[d.h], ns)
			}
			if st, ok := r.unregDone[d.h]; ok && d.step > st {
				bad("callback %d invoked at step %d after its unregister function returned true at step %d", d.h, d.step, st)
			}
		}
	}
	// expected deliveries from the dequeue sequence
	type reg struct {
		ser    uint64
		active bool
	}
	regs := map[int]*reg{}
	var order []int
	var lastSerial uint64
	type exp struct {
		h       int
		serial  uint64
		catchUp bool
	}
	var expected []exp
	for _, g := range r.cbGot {
		switch g.kind {
		case "new":
			lastSerial = g.serial
			if !g.supp {
				expected = append(expected, exp{h: -1, serial: g.serial})
			}
			for _, h := range order {
				if rg := regs[h]; rg.active && rg.ser < g.serial {
					expected = append(expected, exp{h: h, serial: g.serial})
				}
			}
		case "reg":
			if g.hasCfg && g.serial < lastSerial {
				expected = append(expected, exp{h: g.h, serial: lastSerial, catchUp: true})
			}
			regs[g.h] = &reg{ser: g.serial, active: true}
			order = append(order, g.h)
		case "unreg":
			if rg, ok := regs[g.h]; ok {
				rg.active = false
			}
		}
	}
	var got []exp
	for _, d := range r.deliveries {
		if d.h == -2 {
			continue
		}
		ns := serialOf[d.newC]
		e := exp{h: d.h, serial: ns}
		// non-catch-up deliveries: old is the immediate predecessor
		os, ok := serialOf[d.oldC]
		if ok && os+1 == ns && cfgOfSerial[os] == d.oldC {
			// ordinary shape
		} else {
			e.catchUp = true
		}
		got = append(got, e)
	}
	// the callback goroutine may still be inside the last callbacks when the schedule was cut (stuck callback): compare the common prefix
	nmin := len(got)
	if len(expected) < nmin {
		bad("more callback deliveries (%d) than the dequeued events call for (%d)", len(got), len(expected))
		nmin = len(expected)
	}
	for i := 0; i < nmin; i++ {
		if got[i].h != expected[i].h || got[i].serial != expected[i].serial {
			bad("delivery #%d: got callback %d serial %d, expected callback %d serial %d", i, got[i].h, got[i].serial, expected[i].h, expected[i].serial)
			break
		}
		if !expected[i].catchUp && got[i].catchUp {
			bad("delivery #%d (callback %d serial %d): old config is not the immediate predecessor", i, got[i].h, got[i].serial)
			break
		}
	}
	if r.shutdownOK && !r.cfg.stuck && len(got) < len(expected) {
		bad("only %d of the %d callback deliveries the dequeued events call for were made", len(got), len(expected))
	}
	// no skipped version while the queue never overflowed: every install has a new-config event
	if r.shutdownOK && r.maxQueue < 64 && !r.rootCancelledEarly() {
		n := 0
		for _, g := range r.cbGot {
			if g.kind == "new" {
				n++
			}
		}
		if n != len(r.installs) && !r.cfg.stuck {
			bad("%d versions installed but %d new-config events reached the callback goroutine although the queue never filled (max %d)", len(r.installs), n, r.maxQueue)
		}
	}
	return out
}

// rootCancelledEarly: with the Config context done, submitEvent may legitimately skip the send.
func (r *rtRun) rootCancelledEarly() bool { return r.rootCancelled }

type rtStatic struct {
	idx int
	v   int
}

func (s *rtStatic) Value(_ context.Context, t *dials.Type) (reflect.Value, error) {
	return (&rtSource{idx: s.idx}).valueFor(t, s.v), nil
}

func rtFreshCompare(r *rtRun) []string {
	// latest value per source = last update received by the monitor (or the initial value)
	latest := append([]int(nil), r.cfg.init...)
	for _, u := range r.updates {
		latest[u.src] = u.v
	}
	stackable, valid := true, true
	for _, v := range latest {
		if v%4 == 2 {
			stackable = false
		}
		if v%4 == 1 {
			valid = false
		}
	}
	view := r.d.View()
	if !stackable || (!valid && !r.monSkip) {
		return nil // the property then only requires "the last view that verified", covered by the install checks
	}
	srcs := make([]dials.Source, len(latest))
	for i, v := range latest {
		srcs[i] = &rtStatic{idx: i, v: v}
	}
	save := rtCur
	rtCur = nil
	defer func() { rtCur = save }()
	fresh, err := dials.Params[RC]{SkipInitialVerification: true}.Config(context.Background(), &RC{N: &RCN{}, Ṅ: &RCN{}}, srcs...)
	if err != nil {
		return []string{"fresh Config over the latest values failed: " + err.Error()}
	}
	if !reflect.DeepEqual(fresh.View(), view) {
		return []string{fmt.Sprintf("incremental view %s differs from a fresh stack of the latest values %s", r.cfgStr(view), r.cfgStr(fresh.View()))}
	}
	return nil
}
