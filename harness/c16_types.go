package main

// C16 type stream: the pool of user-defined named types, the config-type generator, the feature
// walker the known-finding predicates are written over, and the document / value generators.

import (
	"encoding/json"
	"fmt"
	"reflect"
	"sort"
	"strconv"
	"strings"
	"time"
	"unicode"
)

// ---------- user-defined named types ----------

type NBool bool
type NStr string
type NInt int
type NInt8 int8
type NInt16 int16
type NInt32 int32
type NInt64 int64
type NUint uint
type NUint8 uint8
type NUint16 uint16
type NUint32 uint32
type NUint64 uint64
type NF32 float32
type NF64 float64
type NC64 complex64
type NC128 complex128
type NDur time.Duration

type Names []string
type Levels []NUint8
type NInts []int
type NFloats []float64
type NDurs []time.Duration
type Labels map[string]string
type NSet map[string]struct{}
type Counts map[string]int
type LevelBy map[NStr]NInt16
type MSS map[string][]string
type Grid [][]string

type PInt *int
type PNStr *NStr

// named struct types: value fields, nil-able fields, named leaves
type InV struct {
	A int
	B string
}
type InP struct {
	A *int
	B []string
}
type InN struct {
	L NInt8
	N Names
	D time.Duration
}
type InDeep struct {
	X struct{ A *int }
	K *InP
}
type PInV *InV
type PInP *InP

// text unmarshalers: a struct with a pointer receiver (tuPtr, c01.go), time.Time, and a named scalar
type TUInt int

func (t *TUInt) UnmarshalText(b []byte) error {
	n, err := strconv.Atoi(string(b))
	*t = TUInt(n)
	return err
}

// a named scalar and a named struct with (value-receiver) methods: embedded, they meet reflect.StructOf's limits
type WithStr int

func (w WithStr) String() string { return "w" + strconv.Itoa(int(w)) }

type WithMeth struct{ A int }

func (w WithMeth) Hello() string { return "hello" }

func rt[T any]() reflect.Type { return reflect.TypeOf((*T)(nil)).Elem() }

// a leaf: the predeclared spelling and the user-defined named version of the same underlying type
type c16Leaf struct {
	kind  string
	plain reflect.Type
	named reflect.Type
}

var c16Leaves = []c16Leaf{
	{"bool", rt[bool](), rt[NBool]()}, {"string", rt[string](), rt[NStr]()},
	{"int", rt[int](), rt[NInt]()}, {"int8", rt[int8](), rt[NInt8]()}, {"int16", rt[int16](), rt[NInt16]()}, {"int32", rt[int32](), rt[NInt32]()}, {"int64", rt[int64](), rt[NInt64]()},
	{"uint", rt[uint](), rt[NUint]()}, {"uint8", rt[uint8](), rt[NUint8]()}, {"uint16", rt[uint16](), rt[NUint16]()}, {"uint32", rt[uint32](), rt[NUint32]()}, {"uint64", rt[uint64](), rt[NUint64]()},
	{"float32", rt[float32](), rt[NF32]()}, {"float64", rt[float64](), rt[NF64]()}, {"complex64", rt[complex64](), rt[NC64]()}, {"complex128", rt[complex128](), rt[NC128]()},
	{"duration", rt[time.Duration](), rt[NDur]()},
	{"time", rt[time.Time](), rt[time.Time]()}, {"textunmarshaler", rt[tuPtr](), rt[TUInt]()},
	{"[]string", rt[[]string](), rt[Names]()}, {"[]uint8", rt[[]uint8](), rt[Levels]()}, {"[]int", rt[[]int](), rt[NInts]()}, {"[]float64", rt[[]float64](), rt[NFloats]()},
	{"[]duration", rt[[]time.Duration](), rt[NDurs]()}, {"[]named", rt[[]NStr](), rt[[]NInt32]()}, {"[]bool", rt[[]bool](), rt[[]NBool]()}, {"[]int64", rt[[]int64](), rt[[]NUint64]()},
	{"map[string]string", rt[map[string]string](), rt[Labels]()}, {"set", rt[map[string]struct{}](), rt[NSet]()}, {"map[string]int", rt[map[string]int](), rt[Counts]()},
	{"map[named]named", rt[map[NStr]NInt16](), rt[LevelBy]()}, {"map[string][]string", rt[map[string][]string](), rt[MSS]()}, {"map[int]bool", rt[map[int]bool](), rt[map[NInt8]NBool]()},
	{"map[string]float64", rt[map[string]float64](), rt[map[string]NF64]()}, {"map[string]duration", rt[map[string]time.Duration](), rt[map[NStr]time.Duration]()},
	{"[][]string", rt[[][]string](), rt[Grid]()}, {"[]map[string]int", rt[[]map[string]int](), rt[[]Counts]()}, {"map[string][]int", rt[map[string][]int](), rt[map[string]NInts]()},
	{"[][]named", rt[[][]NInt](), rt[[]Names]()}, {"map[string]map[string]int", rt[map[string]map[string]int](), rt[map[string]Labels]()},
	{"[3]int", rt[[3]int](), rt[[2]NStr]()}, {"[2][]string", rt[[2][]string](), rt[[0]int]()},
	{"*int", rt[*int](), rt[PInt]()}, {"*string", rt[*string](), rt[PNStr]()}, {"*named", rt[*NInt64](), rt[*NStr]()},
	// pointers as collection elements (a document may hold null for one of them)
	{"[]*duration", rt[[]*time.Duration](), rt[[]*NDur]()}, {"map[string]*duration", rt[map[string]*time.Duration](), rt[map[string]*NDur]()},
	{"[]*int", rt[[]*int](), rt[[]*NStr]()}, {"map[string]*string", rt[map[string]*string](), rt[map[string]*NInt]()},
	{"**scalar", rt[**int](), rt[**NStr]()}, {"***bool", rt[***bool](), rt[**NBool]()}, {"*[]string", rt[*[]string](), rt[*Names]()}, {"*map", rt[*map[string]int](), rt[*Labels]()},
}

// struct-ish fields (beyond the generated anonymous structs)
type c16StructLeaf struct {
	kind string
	t    reflect.Type
}

var c16StructLeaves = []c16StructLeaf{
	{"named-struct", rt[InV]()}, {"named-struct", rt[InP]()}, {"named-struct", rt[InN]()}, {"named-struct", rt[InDeep]()},
	{"*named-struct", rt[*InV]()}, {"*named-struct", rt[*InP]()}, {"*named-struct", rt[*InN]()},
	{"**struct", rt[**InP]()}, {"**struct", rt[***InP]()}, {"**struct-bare", rt[**InV]()}, {"**struct-bare", rt[**InN]()}, {"**struct-bare", rt[**InDeep]()},
	{"named-ptr-struct", rt[PInP]()}, {"named-ptr-struct", rt[PInV]()}, {"*named-ptr-struct", rt[*PInP]()}, {"*named-ptr-struct", rt[*PInV]()},
	{"[]struct", rt[[]InP]()}, {"[]struct", rt[[]InV]()}, {"[]*struct", rt[[]*InP]()}, {"[2]struct", rt[[2]InP]()}, {"map[string]struct", rt[map[string]InV]()}, {"*[]struct", rt[*[]InP]()},
}

var c16Embeddable = []c16StructLeaf{
	{"embedded-struct", rt[InV]()}, {"embedded-struct", rt[InP]()}, {"embedded-struct", rt[InN]()}, {"embedded-*struct", rt[*InP]()}, {"embedded-*struct", rt[*InV]()},
	{"embedded-named-slice", rt[Names]()}, {"embedded-named-scalar", rt[NInt]()},
	{"embedded-with-methods", rt[WithStr]()}, {"embedded-with-methods", rt[WithMeth]()}, {"embedded-with-methods", rt[time.Time]()}, {"embedded-with-methods", rt[*tuPtr]()},
}

func init() {
	tuTypeIDs[rt[tuPtr]()] = 2
}

// ---------- generator ----------

type c16Gen struct {
	r       *RNG
	kinds   map[string]int // kinds hit by this type
	oddTags bool
	seq     int
	shorts  int // pflag shorthand letters handed out for this type (distinct, like names)
}

var c16OddTags = []string{`dials:"_"`, `dials:"-x"`, `dialsenv:""`, `dials:""`, `dials:"é"`, `dials:"9lives"`, `dials:"name,omitempty"`, `dials:"a=b"`, `dialsflag:"-bad"`, `dialsflag:"a=b"`,
	`dialspflagshort:"ab"`, `dialspflagshort:"é"`, `dialspflagshort:"日"`, `dialsflag:"=a"`, `dials:"=level"`, `dialsflag:"="`, `dialsflag:"a="`, `dialspflag:""`, `dials:"with space"`, `dials:"__"`, `dialsenv:"lower case"`, `dials:"-"`, `dialsflag:"-"`, `dialspflag:"-"`, `dials:"A_B"`, `dialsalias:"old_name"`, `dialsenvalias:"OLD"`, `dialsflagalias:"old-flag"`}

func (g *c16Gen) tagFor(i int, usedTags map[string]bool, embedded bool) string {
	r := g.r
	var parts []string
	if r.Chance(22) {
		ts := tagSpecs[r.Intn(len(tagSpecs))]
		// sibling fields with the same tag are the same key twice (yaml.v2 rejects the struct by panicking): like duplicate names
		if !usedTags[strings.ToLower(strings.Join(ts.words, "_"))] {
			usedTags[strings.ToLower(strings.Join(ts.words, "_"))] = true
			parts = append(parts, fmt.Sprintf(`dials:%q`, ts.name))
		}
	}
	if r.Chance(6) {
		g.seq++
		parts = append(parts, fmt.Sprintf(`dialsenv:"CUSTOM_%d_%d"`, g.seq, r.Intn(1000)))
	}
	if r.Chance(5) {
		g.seq++
		parts = append(parts, fmt.Sprintf(`dialsflag:"custom-flag-%d-%d"`, g.seq, r.Intn(1000)))
	}
	if r.Chance(5) {
		g.seq++
		parts = append(parts, fmt.Sprintf(`dialspflag:"custom-pflag-%d-%d"`, g.seq, r.Intn(1000)))
	}
	short := r.Chance(5) && g.shorts < 20
	if short {
		// a one-letter pflag shorthand, distinct within the type; often on a field that also has an alias
		parts = append(parts, fmt.Sprintf(`dialspflagshort:"%c"`, "abcdefgijklmnopqrstu"[g.shorts]))
		g.shorts++
	}
	if (r.Chance(4) || (short && r.Chance(50))) && !embedded {
		g.seq++
		parts = append(parts, fmt.Sprintf(`dialsalias:"old_%d_%d"`, g.seq, r.Intn(1000)))
	}
	if r.Chance(3) {
		parts = append(parts, fmt.Sprintf(`dialsdesc:"the %d-th field"`, i))
	}
	if g.oddTags && r.Chance(35) {
		g.kinds["odd-tag"]++
		ot := c16OddTags[r.Intn(len(c16OddTags))]
		if strings.Contains(ot, "alias:") { // alias names are names: distinct
			g.seq++
			ot = strings.TrimSuffix(ot, `"`) + fmt.Sprintf(`%d"`, g.seq)
		}
		if usedTags[ot] {
			ot = ""
		}
		usedTags[ot] = true
		parts = []string{ot}
		if ot == "" {
			parts = nil
		}
	}
	return strings.Join(parts, " ")
}

// kinds that run into the listed finding P01 (and, before its repair, P13) are drawn less often, so that most types exercise
// every entry point to the end
var c16ProneKinds = map[string]bool{"embedded-with-methods": true, "embedded-named-scalar": true, "embedded-named-slice": true}

func (g *c16Gen) leaf() reflect.Type {
	r := g.r
	l := c16Leaves[r.Intn(len(c16Leaves))]
	for c16ProneKinds[l.kind] && r.Chance(70) {
		l = c16Leaves[r.Intn(len(c16Leaves))]
	}
	if r.Chance(75) {
		g.kinds["leaf/"+l.kind+"/named"]++
		return l.named
	}
	g.kinds["leaf/"+l.kind+"/plain"]++
	return l.plain
}

// genStruct builds an anonymous struct type; StructOf's own panics (which the generator must not count
// against the library) are caught by the caller.
func (g *c16Gen) genStruct(depth int) reflect.Type {
	r := g.r
	n := 1 + r.Intn(5)
	var fs []reflect.StructField
	used := map[string]bool{}
	usedTags := map[string]bool{}
	for i := 0; i < n; i++ {
		if r.Chance(9) { // embedded field
			e := c16Embeddable[r.Intn(len(c16Embeddable))]
			for c16ProneKinds[e.kind] && r.Chance(70) {
				e = c16Embeddable[r.Intn(len(c16Embeddable))]
			}
			name := e.t.Name()
			if e.t.Kind() == reflect.Ptr {
				name = e.t.Elem().Name()
			}
			if used[name] {
				continue
			}
			used[name] = true
			g.kinds[e.kind]++
			fs = append(fs, reflect.StructField{Name: name, Type: e.t, Anonymous: true, Tag: reflect.StructTag(g.tagFor(i, usedTags, true))})
			continue
		}
		ns := fieldNames[r.Intn(len(fieldNames))]
		if used[ns.name] {
			continue
		}
		used[ns.name] = true
		f := reflect.StructField{Name: ns.name, Tag: reflect.StructTag(g.tagFor(i, usedTags, false))}
		switch x := r.Intn(100); {
		case x < 18 && depth > 0:
			inner := g.genStruct(depth - 1)
			switch y := r.Intn(10); {
			case y < 4:
				g.kinds["struct"]++
				f.Type = inner
			case y < 8:
				g.kinds["*struct"]++
				f.Type = reflect.PtrTo(inner)
			case y < 9 && r.Chance(40):
				g.kinds["**struct"]++
				f.Type = reflect.PtrTo(reflect.PtrTo(inner))
			case y < 9:
				g.kinds["*struct"]++
				f.Type = reflect.PtrTo(inner)
			default:
				g.kinds["[]struct"]++
				f.Type = reflect.SliceOf(inner)
			}
		case x < 30:
			s := c16StructLeaves[r.Intn(len(c16StructLeaves))]
			for c16ProneKinds[s.kind] && r.Chance(70) {
				s = c16StructLeaves[r.Intn(len(c16StructLeaves))]
			}
			g.kinds[s.kind]++
			f.Type = s.t
		default:
			f.Type = g.leaf()
		}
		fs = append(fs, f)
	}
	if len(fs) == 0 {
		fs = append(fs, reflect.StructField{Name: "Only", Type: g.leaf()})
	}
	return reflect.StructOf(fs)
}

// ---------- static corpus: declared config types (what reflect.StructOf cannot build) ----------

type C16Server struct {
	Host    NStr
	Port    NUint16 `dials:"port"`
	Timeout time.Duration
	TLS     *C16TLS
	Tags    Names
	Labels  Labels
}
type C16TLS struct {
	Cert    string `dials:"cert_file"`
	Key     string
	Enabled NBool
}
type C16Base struct {
	Name  NStr
	Level NInt8
}
type C16Embed struct {
	C16Base
	*C16TLS
	Extra   Counts
	Started time.Time
}
type C16Ptrs struct {
	A  *int
	B  **NStr
	C  PInt
	In **InP
	L  *Levels
}
type C16Nested struct {
	Grid  [][]string
	Maps  []map[string]int
	Lists map[string][]int
	Arr   [3]NInt
	Srv   []C16Server
	Set   NSet
	MSS   map[string][]string
}

// elements of collections are not pointerified, so their unexported fields stay in the type the manglers see (P16)
type C16Item struct {
	A      int
	hidden int
	C      string
	T      time.Duration
	secret *int
}
type C16Elems struct {
	Name   string
	Items  []C16Item
	Pair   [2]C16Item
	PItems []*C16Item
	ByName map[string]C16Item
}

// an embedded struct that itself embeds a user-defined scalar: the scalar's flattened name is empty (P18, repaired together with P13)
type C16Inner struct{ NInt8 }
type C16EmbEmb struct {
	Addr string
	C16Inner
}
type C16Flat struct {
	B          bool
	S          string
	I          int
	I8         int8
	U64        uint64
	F32        float32
	F64        float64
	C          complex128
	D          time.Duration
	T          time.Time
	TU         tuPtr
	SS         []string
	IS         []int
	M          map[string]string
	unexported int
	Skip       int `dials:"-"`
}

var c16Static = []reflect.Type{rt[C16Server](), rt[C16Embed](), rt[C16Ptrs](), rt[C16Nested](), rt[C16Flat](), rt[C16Elems](), rt[C16EmbEmb]()}

// ---------- feature walker (what the known-finding predicates are written over) ----------

type c16Feat struct {
	PtrPtrStruct      bool // a field with >= 2 pointer levels (named pointer types count) above a non-TextUnmarshaler struct
	PtrPtrStructBare  bool // … whose struct (which Pointerify leaves untouched) has a field that is not nil-able, or contains such a struct
	NamedPtrUnderPtr  bool // a pointer to a NAMED pointer-to-struct type (*PInP)
	PtrPtrScalar      bool // >= 2 pointer levels above a non-struct type
	EmbeddedMethods   bool // an embedded field whose pointerified type has methods (reflect.StructOf cannot build the struct)
	EmptyEnvName      bool // a dials tag that decodes to no word, or an empty dialsenv tag: env.go's explicit panic
	BadFlagName       bool // a flag name the standard flag package rejects by panicking (leading '-', contains '=', empty)
	BadShorthand      bool // a dialspflagshort tag longer than one character
	PtrToCollection   bool // a user-declared pointer to a slice or map (*[]string, *Names, *map[string]int)
	NamedPtrToNamed   bool // a NAMED pointer type whose element is a user-defined scalar type (type PNStr *NStr)
	NamedComplex      bool // a user-defined complex type (type NC128 complex128), possibly behind pointers
	NamedScalar       bool // any user-defined scalar type (leaf, element, key or value)
	EmbeddedNonStruct bool // an embedded field that is not a struct (embedded named scalar or slice)
	AliasOnEmbedded   bool // an alias tag on an embedded struct field
	NonStringKeyMap   bool // a map whose key type is not a string kind
	CommaTag          bool // a tag value with options after a comma (the harness renders tag names without them)
	Leaves            int
}

func hasNonStringKeyMap(t reflect.Type, depth int) bool {
	if depth > 6 {
		return false
	}
	switch t.Kind() {
	case reflect.Ptr, reflect.Slice, reflect.Array:
		return hasNonStringKeyMap(t.Elem(), depth+1)
	case reflect.Map:
		return t.Key().Kind() != reflect.String || hasNonStringKeyMap(t.Elem(), depth+1)
	case reflect.Struct:
		for i := 0; i < t.NumField(); i++ {
			if hasNonStringKeyMap(t.Field(i).Type, depth+1) {
				return true
			}
		}
	}
	return false
}

func hasNamedScalar(t reflect.Type, depth int) bool {
	if depth > 6 {
		return false
	}
	switch t.Kind() {
	case reflect.Ptr, reflect.Slice, reflect.Array:
		return hasNamedScalar(t.Elem(), depth+1)
	case reflect.Map:
		return hasNamedScalar(t.Key(), depth+1) || hasNamedScalar(t.Elem(), depth+1)
	case reflect.Struct:
		for i := 0; i < t.NumField(); i++ {
			if hasNamedScalar(t.Field(i).Type, depth+1) {
				return true
			}
		}
		return false
	case reflect.Interface, reflect.Chan, reflect.Func:
		return false
	}
	return t.PkgPath() != ""
}

func isTUType(t reflect.Type) bool {
	return t.Implements(rt[interface{ UnmarshalText([]byte) error }]()) || reflect.PtrTo(t).Implements(rt[interface{ UnmarshalText([]byte) error }]())
}

func nilableKind(t reflect.Type) bool {
	switch t.Kind() {
	case reflect.Ptr, reflect.Slice, reflect.Map, reflect.Interface:
		return true
	}
	return false
}

// bareStruct: the struct has a field that the sources need wrapped but Pointerify did not see
func bareStruct(t reflect.Type, depth int) bool {
	if depth > 8 {
		return false
	}
	for i := 0; i < t.NumField(); i++ {
		f := t.Field(i)
		if !f.IsExported() {
			continue
		}
		ft := f.Type
		if !nilableKind(ft) {
			return true
		}
		for ft.Kind() == reflect.Ptr {
			ft = ft.Elem()
		}
		if ft.Kind() == reflect.Struct && !isTUType(ft) && bareStruct(ft, depth+1) {
			return true
		}
	}
	return false
}

// words a dials tag decodes to under DecodeGoTags followed by the upper-snake encoder: empty iff the tag
// consists of separators only
func tagHasWord(tag string) bool {
	for _, c := range tag {
		if c != '_' && c != '-' {
			return true
		}
	}
	return false
}

func (ft *c16Feat) walk(t reflect.Type, depth int) {
	if depth > 10 {
		return
	}
	for i := 0; i < t.NumField(); i++ {
		f := t.Field(i)
		if !f.IsExported() {
			continue
		}
		if dt, ok := f.Tag.Lookup("dials"); ok && dt == "-" {
			continue
		}
		x := f.Type
		levels := 0
		namedBelow := false
		for x.Kind() == reflect.Ptr {
			if levels > 0 && x.Name() != "" {
				namedBelow = true
			}
			levels++
			x = x.Elem()
		}
		isStruct := x.Kind() == reflect.Struct && !isTUType(x)
		if f.Type.Kind() == reflect.Ptr && (f.Type.Elem().Kind() == reflect.Slice || f.Type.Elem().Kind() == reflect.Map) {
			ft.PtrToCollection = true
		}
		if f.Type.Kind() == reflect.Ptr && f.Type.Name() != "" && f.Type.Elem().Kind() != reflect.Struct && f.Type.Elem().PkgPath() != "" {
			ft.NamedPtrToNamed = true
		}
		if (x.Kind() == reflect.Complex64 || x.Kind() == reflect.Complex128) && x.PkgPath() != "" {
			ft.NamedComplex = true
		}
		if hasNamedScalar(f.Type, 0) {
			ft.NamedScalar = true
		}
		if hasNonStringKeyMap(f.Type, 0) {
			ft.NonStringKeyMap = true
		}
		if strings.Contains(string(f.Tag), ",") {
			ft.CommaTag = true
		}
		if f.Anonymous && x.Kind() != reflect.Struct {
			ft.EmbeddedNonStruct = true
		}
		if f.Anonymous {
			for _, tn := range []string{"dialsalias", "dialsenvalias", "dialsflagalias", "dialspflagalias"} {
				if _, ok := f.Tag.Lookup(tn); ok {
					ft.AliasOnEmbedded = true
				}
			}
		}
		if f.Anonymous {
			// what Pointerify turns the embedded field into: *T for scalars and text unmarshalers (methods kept),
			// *struct{…} (anonymous, no methods) for plain structs
			pt := f.Type
			if !isStruct {
				if !nilableKind(pt) {
					pt = reflect.PtrTo(pt)
				}
				if pt.NumMethod() > 0 || (pt.Kind() == reflect.Ptr && pt.Elem().NumMethod() > 0) {
					ft.EmbeddedMethods = true
				}
			}
		}
		if dt, ok := f.Tag.Lookup("dials"); ok && !tagHasWord(dt) && !(f.Anonymous && isStruct && false) {
			ft.EmptyEnvName = true
		}
		if et, ok := f.Tag.Lookup("dialsenv"); ok && et == "" {
			ft.EmptyEnvName = true
		}
		for _, tn := range []string{"dials", "dialsflag"} {
			if v, ok := f.Tag.Lookup(tn); ok {
				if i := strings.IndexByte(v, ','); i >= 0 && tn == "dials" {
					v = v[:i]
				}
				if v == "" || strings.HasPrefix(v, "-") || strings.Contains(v, "=") {
					ft.BadFlagName = true
				}
			}
		}
		if v, ok := f.Tag.Lookup("dialspflagshort"); ok && len(v) > 1 {
			ft.BadShorthand = true
		}
		if isStruct {
			if levels >= 2 {
				ft.PtrPtrStruct = true
				if namedBelow {
					ft.NamedPtrUnderPtr = true
				}
				if bareStruct(x, 0) {
					ft.PtrPtrStructBare = true
				}
				// Pointerify does not look inside: the sources see the declared struct
			}
			ft.walk(x, depth+1)
			continue
		}
		if levels >= 2 {
			ft.PtrPtrScalar = true
		}
		ft.Leaves++
	}
}

// flatLeafNames: the Go field names the flatten mangler gives the leaves (concatenated path names,
// embedded fields contribute no name); duplicates make reflect.StructOf panic — excluded by the property
func flatLeafNames(t reflect.Type, prefix string, out *[]string, depth int) {
	if depth > 10 {
		return
	}
	for i := 0; i < t.NumField(); i++ {
		f := t.Field(i)
		if !f.IsExported() {
			continue
		}
		if dt, ok := f.Tag.Lookup("dials"); ok && dt == "-" {
			continue
		}
		name := prefix
		if !f.Anonymous {
			name = prefix + f.Name
		}
		x := f.Type
		for x.Kind() == reflect.Ptr {
			x = x.Elem()
		}
		if x.Kind() == reflect.Struct && !isTUType(x) {
			flatLeafNames(x, name, out, depth+1)
			continue
		}
		if f.Anonymous {
			name = prefix + f.Name
		}
		*out = append(*out, name)
		if _, ok := f.Tag.Lookup("dialsalias"); ok {
			*out = append(*out, name+"_alias9wr876rw3")
		}
	}
}

// levelNamesDistinct: at every struct level the field names stay distinct when the fields of embedded
// structs are hoisted into the parent (the type the anonymous-flatten mangler builds with reflect.StructOf)
func levelNamesDistinct(t reflect.Type, depth int) bool {
	if depth > 10 {
		return true
	}
	var names []string
	for i := 0; i < t.NumField(); i++ {
		f := t.Field(i)
		if !f.IsExported() {
			continue
		}
		x := f.Type
		for x.Kind() == reflect.Ptr || x.Kind() == reflect.Slice || x.Kind() == reflect.Array {
			x = x.Elem()
		}
		if x.Kind() == reflect.Struct && !isTUType(x) {
			if !levelNamesDistinct(x, depth+1) {
				return false
			}
			if f.Anonymous && f.Type.Kind() != reflect.Slice && f.Type.Kind() != reflect.Array {
				for j := 0; j < x.NumField(); j++ {
					if x.Field(j).IsExported() {
						names = append(names, x.Field(j).Name)
					}
				}
				continue
			}
		}
		names = append(names, f.Name)
	}
	return !hasDup(names)
}

// flatWordKeys: the tag-side name of every flattened leaf (what flag and variable names are derived
// from): per path element the dials tag if there is one, else the words of the field name; embedded
// fields without a tag contribute nothing.  Two leaves with the same key share a flag / variable name:
// duplicate flattened names in the sense of the property.
func wordsOfName(name string) string {
	for _, ns := range fieldNames {
		if ns.name == name {
			return strings.Join(ns.words, "_")
		}
	}
	return strings.ToLower(name)
}

func wordsOfTag(tag string) string {
	if i := strings.IndexByte(tag, ','); i >= 0 {
		tag = tag[:i]
	}
	for _, ts := range tagSpecs {
		if ts.name == tag {
			return strings.Join(ts.words, "_")
		}
	}
	return strings.Trim(strings.ToLower(strings.ReplaceAll(tag, "-", "_")), "_")
}

func flatWordKeys(t reflect.Type, prefix []string, out *[]string, depth int) {
	if depth > 10 {
		return
	}
	for i := 0; i < t.NumField(); i++ {
		f := t.Field(i)
		if !f.IsExported() {
			continue
		}
		dt, hasTag := f.Tag.Lookup("dials")
		if hasTag && dt == "-" {
			continue
		}
		p := append([]string{}, prefix...)
		if hasTag {
			p = append(p, wordsOfTag(dt))
		} else if !f.Anonymous {
			p = append(p, wordsOfName(f.Name))
		}
		x := f.Type
		for x.Kind() == reflect.Ptr {
			x = x.Elem()
		}
		if x.Kind() == reflect.Struct && !isTUType(x) {
			flatWordKeys(x, p, out, depth+1)
			continue
		}
		*out = append(*out, strings.Join(p, "_"))
	}
}

// yamlKeysDistinct: yaml.v2 panics ("Duplicated key") for a struct with two fields of the same key (a
// dials tag equal to a sibling's lower-cased name)
func yamlKeysDistinct(t reflect.Type, depth int) bool {
	if depth > 10 {
		return true
	}
	var keys []string
	for i := 0; i < t.NumField(); i++ {
		f := t.Field(i)
		if !f.IsExported() {
			continue
		}
		x := f.Type
		for x.Kind() == reflect.Ptr || x.Kind() == reflect.Slice || x.Kind() == reflect.Array || x.Kind() == reflect.Map {
			x = x.Elem()
		}
		if x.Kind() == reflect.Struct && !isTUType(x) && !yamlKeysDistinct(x, depth+1) {
			return false
		}
		k := strings.ToLower(f.Name)
		if dt, ok := f.Tag.Lookup("dials"); ok && dt != "" {
			if j := strings.IndexByte(dt, ','); j >= 0 {
				dt = dt[:j]
			}
			if dt != "" {
				k = dt
			}
		}
		keys = append(keys, k)
	}
	return !hasDup(keys)
}

func hasDup(ss []string) bool {
	m := map[string]bool{}
	for _, s := range ss {
		if m[s] {
			return true
		}
		m[s] = true
	}
	return false
}

// ---------- leaf texts ----------

func hasExternalKind(t reflect.Type) bool {
	switch t.Kind() {
	case reflect.Float32, reflect.Float64, reflect.Complex64, reflect.Complex128:
		return true
	case reflect.Int64:
		return t == rt[time.Duration]()
	case reflect.Slice, reflect.Ptr, reflect.Array:
		return hasExternalKind(t.Elem())
	case reflect.Map:
		return hasExternalKind(t.Key()) || hasExternalKind(t.Elem())
	}
	return false
}

// goodText: a text the leaf type accepts (mostly)
func goodText(r *RNG, t reflect.Type, depth int) string {
	switch t.Kind() {
	case reflect.Bool:
		return pick(r, []string{"true", "false", "1", "0", "T", "F", "True", "FALSE", "t"})
	case reflect.String:
		return genStr(r)
	case reflect.Int, reflect.Int8, reflect.Int16, reflect.Int32, reflect.Int64:
		if t == rt[time.Duration]() {
			return pick(r, []string{"1s", "250ms", "1h2m3s", "-5m", "0", "1.5h", "9223372036854775807ns"})
		}
		v := genNear(r, intKind{signed: true, bits: t.Bits()})
		if r.Chance(30) {
			return literal(r, v)
		}
		return v.String()
	case reflect.Uint, reflect.Uint8, reflect.Uint16, reflect.Uint32, reflect.Uint64:
		v := genNear(r, intKind{signed: false, bits: t.Bits()})
		if r.Chance(30) {
			return literal(r, v)
		}
		return v.String()
	case reflect.Float32, reflect.Float64:
		return pick(r, []string{"1.5", "-0", "1e10", "3.4028235e38", "1e-320", "Inf", "NaN", "0x1p-2", "1_000.5", "1e400", ".5"})
	case reflect.Complex64, reflect.Complex128:
		return pick(r, []string{"1+2i", "(1+2i)", "i", "3", "-1.5e3-2i", "NaN+Infi", "1e400+1i", "2i"})
	case reflect.Ptr:
		return goodText(r, t.Elem(), depth)
	case reflect.Slice, reflect.Array:
		n := r.Intn(4)
		parts := make([]string, n)
		for i := range parts {
			s := goodText(r, t.Elem(), depth+1)
			if strings.ContainsAny(s, ",\"'`\\ \t\n:") || s == "" || depth > 0 {
				s = strconv.Quote(s)
			}
			parts[i] = s
		}
		return strings.Join(parts, ",")
	case reflect.Map:
		n := r.Intn(4)
		var parts []string
		for i := 0; i < n; i++ {
			k := goodText(r, t.Key(), depth+1)
			if t.Key().Kind() == reflect.String {
				k = "k" + genWord(r)
			}
			if t.Elem().Kind() == reflect.Struct {
				parts = append(parts, strconv.Quote(k))
				continue
			}
			v := goodText(r, t.Elem(), depth+1)
			if strings.ContainsAny(v, ",\"'`\\ \t\n:") || v == "" || depth > 0 {
				v = strconv.Quote(v)
			}
			parts = append(parts, strconv.Quote(k)+":"+v)
		}
		return strings.Join(parts, ",")
	case reflect.Struct:
		if t == rt[time.Time]() {
			return pick(r, []string{"2020-01-02T03:04:05Z", "2020-01-02T03:04:05.678+09:00", "0001-01-01T00:00:00Z"})
		}
		return strconv.Itoa(r.Intn(1000))
	}
	return "x"
}

var c16BadTexts = []string{"", " ", ",", ",,", ":", "::", "a:", ":a", "\"", "\"unterminated", "'", "'x", "`", "`raw", "\\", "a\\", "\x01", "\x7f", "\xff\xfe", "é", "世界", "a,b,", ",a", "a::b", "a:b:c", "a:b,a:c",
	"1,2,x", "--1", "+-1", "0x", "0b2", "1__0", "_1", "1_", "99999999999999999999999999", "-99999999999999999999999999", "1e", "e1", "1.2.3", "0x1p", "NaN", "+Inf", "1+", "+i", "1+2", "(1+2i", "1h2", "h", "1 s",
	"truee", "yes", "nil", "null", "{}", "[]", "[1,2]", "{\"a\":1}", "a b", " a", "a ", "\ta\n", "\"a\",\"b\"", "\"a\":\"b\"", "'c'", "'c','d'", "`r`:`s`", "\"\":\"v\"", "\"k\":\"\"", "k:", "k:,", "/*", "//x", "a/*b*/", "\"\\x\"", "\"\\u12\"",
	strings.Repeat(",", 300), strings.Repeat("a:b,", 200), strings.Repeat("\"", 301), strings.Repeat("9", 400), strings.Repeat("(", 100), strings.Repeat("ab", 3000)}

func badText(r *RNG) string {
	switch r.Intn(10) {
	case 0, 1, 2, 3, 4:
		return c16BadTexts[r.Intn(len(c16BadTexts))]
	case 5, 6:
		return genText(r, r.Intn(30))
	case 7:
		b := make([]byte, r.Intn(24))
		for i := range b {
			b[i] = byte(r.Intn(256))
		}
		return string(b)
	default:
		s := []byte(genStr(r) + ",\"" + genStr(r) + "\":" + genStr(r))
		if len(s) > 0 {
			s[r.Intn(len(s))] = byte(r.Intn(256))
		}
		return string(s)
	}
}

// leafText: mostly valid, sometimes malformed; NUL bytes removed where the OS cannot carry them
func leafText(r *RNG, t reflect.Type) string {
	if r.Chance(22) {
		return badText(r)
	}
	return goodText(r, t, 0)
}

// ---------- documents for the decoders ----------

func lowerFirstKey(f reflect.StructField, format string) string {
	if v, ok := f.Tag.Lookup("dials"); ok && v != "" {
		if i := strings.IndexByte(v, ','); i >= 0 {
			v = v[:i]
		}
		if v != "" {
			return v
		}
	}
	if format == "yaml" {
		return strings.ToLower(f.Name)
	}
	return f.Name
}

// genDoc: a generic document tree for a value of type t (keys as the decoders expect them: dials tag or
// field name); wrong-typed values with a small probability
func genDoc(r *RNG, t reflect.Type, format string, depth int) any {
	if depth > 6 {
		return nil
	}
	if r.Chance(3) {
		return pick(r, []any{"wrong", 1, true, nil, map[string]any{"x": 1}, []any{1, "a"}, 1.5, -1, "9999999999999999999999"})
	}
	switch t.Kind() {
	case reflect.Bool:
		return r.Bool()
	case reflect.String:
		return genStr(r)
	case reflect.Int, reflect.Int8, reflect.Int16, reflect.Int32, reflect.Int64:
		if t == rt[time.Duration]() || t == rt[NDur]() {
			if r.Bool() {
				return pick(r, []string{"1s", "3m", "1h30m", "bogus"})
			}
			return r.Intn(1000000)
		}
		v := genNear(r, intKind{signed: true, bits: t.Bits()})
		if v.IsInt64() {
			return v.Int64()
		}
		return json.Number(v.String())
	case reflect.Uint, reflect.Uint8, reflect.Uint16, reflect.Uint32, reflect.Uint64:
		v := genNear(r, intKind{signed: false, bits: t.Bits()})
		if v.IsInt64() {
			return v.Int64()
		}
		return json.Number(v.String())
	case reflect.Float32, reflect.Float64:
		return pick(r, []any{1.5, -2.25, 1e300, 0, 3})
	case reflect.Complex64, reflect.Complex128:
		return pick(r, []any{"1+2i", 3, 1.5})
	case reflect.Ptr:
		if r.Chance(10) {
			return nil
		}
		return genDoc(r, t.Elem(), format, depth)
	case reflect.Slice, reflect.Array:
		n := r.Intn(4)
		if t.Kind() == reflect.Array && r.Chance(70) {
			n = t.Len()
		}
		out := make([]any, n)
		for i := range out {
			out[i] = genDoc(r, t.Elem(), format, depth+1)
		}
		return out
	case reflect.Map:
		out := map[string]any{}
		for i := r.Intn(4); i > 0; i-- {
			k := "k" + genWord(r)
			switch t.Key().Kind() {
			case reflect.Int, reflect.Int8, reflect.Int16, reflect.Int32, reflect.Int64, reflect.Uint, reflect.Uint8, reflect.Uint16, reflect.Uint32, reflect.Uint64:
				k = strconv.Itoa(r.Intn(100))
			}
			if t.Elem().Kind() == reflect.Struct && t.Elem().NumField() == 0 {
				out[k] = map[string]any{}
				continue
			}
			out[k] = genDoc(r, t.Elem(), format, depth+1)
		}
		return out
	case reflect.Struct:
		if t == rt[time.Time]() {
			return pick(r, []string{"2020-01-02T03:04:05Z", "2021-12-31T23:59:59.5+01:00", "yesterday"})
		}
		if isTUType(t) {
			return strconv.Itoa(r.Intn(100))
		}
		out := map[string]any{}
		for i := 0; i < t.NumField(); i++ {
			f := t.Field(i)
			if !f.IsExported() || r.Chance(25) {
				continue
			}
			x := f.Type
			for x.Kind() == reflect.Ptr {
				x = x.Elem()
			}
			if f.Anonymous && x.Kind() == reflect.Struct && !isTUType(x) && r.Chance(60) {
				if m, ok := genDoc(r, x, format, depth+1).(map[string]any); ok {
					for k, v := range m {
						out[k] = v
					}
				}
				continue
			}
			out[lowerFirstKey(f, format)] = genDoc(r, f.Type, format, depth+1)
		}
		return out
	}
	return nil
}

// tomlKey / renderTOML: a small TOML writer for the generic tree (top-level keys, [tables], inline
// tables and arrays); nil values are dropped (TOML has none)
func tomlKey(k string) string {
	for _, c := range k {
		if !(unicode.IsLetter(c) && c < 128) && !(c >= '0' && c <= '9') && c != '_' && c != '-' {
			return strconv.Quote(k)
		}
	}
	if k == "" {
		return `""`
	}
	return k
}

func tomlInline(v any) string {
	switch x := v.(type) {
	case nil:
		return `""`
	case bool:
		return strconv.FormatBool(x)
	case string:
		return strconv.Quote(x)
	case json.Number:
		return string(x)
	case map[string]any:
		keys := make([]string, 0, len(x))
		for k := range x {
			keys = append(keys, k)
		}
		sort.Strings(keys)
		var parts []string
		for _, k := range keys {
			if x[k] == nil {
				continue
			}
			parts = append(parts, tomlKey(k)+" = "+tomlInline(x[k]))
		}
		return "{" + strings.Join(parts, ", ") + "}"
	case []any:
		parts := make([]string, len(x))
		for i, e := range x {
			parts[i] = tomlInline(e)
		}
		return "[" + strings.Join(parts, ", ") + "]"
	}
	return fmt.Sprint(v)
}

func renderTOML(m map[string]any, path string, sb *strings.Builder) {
	keys := make([]string, 0, len(m))
	for k := range m {
		keys = append(keys, k)
	}
	sort.Strings(keys)
	for _, k := range keys {
		if _, isMap := m[k].(map[string]any); isMap || m[k] == nil {
			continue
		}
		sb.WriteString(tomlKey(k) + " = " + tomlInline(m[k]) + "\n")
	}
	for _, k := range keys {
		if sub, isMap := m[k].(map[string]any); isMap {
			p := tomlKey(k)
			if path != "" {
				p = path + "." + p
			}
			sb.WriteString("[" + p + "]\n")
			renderTOML(sub, p, sb)
		}
	}
}

// mutate: a malformed variant of a document
func mutateDoc(r *RNG, doc string) string {
	b := []byte(doc)
	switch r.Intn(7) {
	case 0:
		if len(b) > 0 {
			b = b[:r.Intn(len(b))]
		}
	case 1:
		for k := 1 + r.Intn(3); k > 0 && len(b) > 0; k-- {
			b[r.Intn(len(b))] = byte(r.Intn(256))
		}
	case 2:
		if len(b) > 0 {
			i := r.Intn(len(b))
			ins := pick(r, []string{"{", "}", "[", "]", "\"", ":", ",", "\x00", "\xff", "\n- ", "\t", "=", "#", "'", "null", "!!binary ", "&a ", "*a", "<<: ", "1e999", "_|_", "...", "//"})
			b = append(b[:i], append([]byte(ins), b[i:]...)...)
		}
	case 3:
		if len(b) > 2 {
			i, j := r.Intn(len(b)), r.Intn(len(b))
			if i > j {
				i, j = j, i
			}
			b = append(b[:j], append(append([]byte{}, b[i:j]...), b[j:]...)...)
		}
	case 4:
		b = append(b, b...)
	case 5:
		for i := range b {
			if b[i] == '"' && r.Chance(30) {
				b[i] = '\''
			}
		}
	default:
		b = []byte(strings.Repeat("[", 50+r.Intn(2000)))
		if r.Bool() {
			b = []byte(strings.Repeat("{\"a\":", 50+r.Intn(500)))
		}
	}
	return string(b)
}

func shortType(t reflect.Type) string {
	s := t.String()
	if len(s) > 1500 {
		s = s[:1500] + "…"
	}
	return s
}

var _ = time.Now

func pick[T any](r *RNG, xs []T) T { return xs[r.Intn(len(xs))] }

// cueStringRepeat: the document multiplies a string literal (CUE evaluates `"a"*n` as repetition); n is the
// adjacent integer (0 if none).  Listed finding P14: the cue decoder panics inside strings.Repeat when the
// product overflows; a large but representable n would make it allocate that much instead.
func cueStringRepeat(doc string) (found bool, n float64) {
	for i := 0; i < len(doc); i++ {
		if doc[i] != '*' {
			continue
		}
		j := i - 1
		for j >= 0 && (doc[j] == ' ' || doc[j] == '\t') {
			j--
		}
		k := i + 1
		for k < len(doc) && (doc[k] == ' ' || doc[k] == '\t') {
			k++
		}
		left := j >= 0 && (doc[j] == '"' || doc[j] == '\'' || doc[j] == ')' || doc[j] == ']')
		right := k < len(doc) && (doc[k] == '"' || doc[k] == '\'' || doc[k] == '(' || doc[k] == '[')
		if !left && !right {
			continue
		}
		found = true
		// the integer on the other side
		num := ""
		if left {
			e := k
			for e < len(doc) && (doc[e] >= '0' && doc[e] <= '9' || doc[e] == '-' || doc[e] == '_') {
				e++
			}
			num = doc[k:e]
		} else {
			b := j
			for b >= 0 && (doc[b] >= '0' && doc[b] <= '9' || doc[b] == '_') {
				b--
			}
			num = doc[b+1 : j+1]
		}
		if v, err := strconv.ParseFloat(strings.ReplaceAll(num, "_", ""), 64); err == nil && v > n {
			n = v
		}
	}
	return
}
