package main

// C01, repeated stacking of the SAME objects: every stack is computed from what its inputs hold NOW.
//
//  (i)  the caller's defaults object is handed to Config twice, with an edit in between: the second instance shows the
//       edited defaults (leaf = "the caller's default when no source set it");
//  (ii) a watching source sets a map / slice / pointer leaf at Config time and later reports a value that no longer
//       sets it: the leaf reverts to the default ("a source that sets nothing changes nothing" - and a source that STOPS
//       setting a leaf no longer wins it).
//
// Memory the library keeps between calls (pools, caches keyed by address) is exactly what could break this, and whether
// such memory survives depends on the garbage collector: the stream runs with the collector switched off so that the
// outcome does not depend on when a collection happens.  Oracle only (the model's compose is a function of its inputs).

import (
	"context"
	"fmt"
	"reflect"
	"runtime/debug"
	"time"
	"strings"

	"github.com/vimeo/dials"
	jsondec "github.com/vimeo/dials/decoders/json"
	"github.com/vimeo/dials/sources/static"
)

type c01RSub struct {
	Weights map[string]int
	Hosts   []string
}

type c01RCfg struct {
	Name   string
	Limits map[string]int
	Tags   []string
	Sub    *c01RSub
	Opt    *int
}

type c01RWatcher struct {
	first string
	args  dials.WatchArgs
	typ   *dials.Type
}

func c01RDecode(doc string, t *dials.Type) (reflect.Value, error) {
	return (&jsondec.Decoder{}).Decode(strings.NewReader(doc), t)
}

func (w *c01RWatcher) Value(_ context.Context, t *dials.Type) (reflect.Value, error) {
	return c01RDecode(w.first, t)
}
func (w *c01RWatcher) Watch(_ context.Context, t *dials.Type, a dials.WatchArgs) error {
	w.args, w.typ = a, t
	return nil
}

func c01Reuse(c *Ctx, n int) {
	r := c.RNG
	res := c.Res
	old := debug.SetGCPercent(-1)
	defer debug.SetGCPercent(old)
	show := func(v *c01RCfg) string {
		sub := "nil"
		if v.Sub != nil {
			sub = fmt.Sprintf("{Weights:%v Hosts:%v}", v.Sub.Weights, v.Sub.Hosts)
		}
		opt := "nil"
		if v.Opt != nil {
			opt = fmt.Sprint(*v.Opt)
		}
		return fmt.Sprintf("{Name:%s Limits:%v Tags:%v Sub:%s Opt:%s}", v.Name, v.Limits, v.Tags, sub, opt)
	}
	for i := 0; i < n; i++ {
		a, b := 10+r.Intn(90), 100+r.Intn(900)
		seven := 7
		defaults := &c01RCfg{Name: "first", Limits: map[string]int{"rps": a}, Tags: []string{"t0"}, Sub: &c01RSub{Weights: map[string]int{"w": a}, Hosts: []string{"h0"}}, Opt: &seven}
		ctx, cancel := context.WithCancel(context.Background())
		// (i) the same defaults object twice
		cs := map[string]any{"stream": "same defaults object, two Config calls", "a": a, "b": b}
		src := func() dials.Source {
			return &static.StringSource{Data: `{"Name":"from-source"}`, Decoder: &jsondec.Decoder{}}
		}
		d1, err1 := dials.Config(ctx, defaults, src())
		if err1 != nil {
			res.Add(Finding{Kind: "violation", What: "Config failed: " + err1.Error(), Case: cs})
			cancel()
			continue
		}
		want1 := c01RCfg{Name: "from-source", Limits: map[string]int{"rps": a}, Tags: []string{"t0"}, Sub: &c01RSub{Weights: map[string]int{"w": a}, Hosts: []string{"h0"}}, Opt: &seven}
		if !reflect.DeepEqual(*d1.View(), want1) {
			res.Add(Finding{Kind: "violation", What: "first instance: stacked config differs from defaults overlaid by the source", Case: cs, Expected: show(&want1), Observed: show(d1.View())})
		}
		// the caller edits its defaults and builds a second instance from the same object
		defaults.Limits["burst"] = b
		defaults.Tags = append(defaults.Tags, "t1")
		defaults.Sub.Weights["v"] = b
		defaults.Sub.Hosts[0] = "h-edited"
		d2, err2 := dials.Config(ctx, defaults, src())
		if err2 != nil {
			res.Add(Finding{Kind: "violation", What: "second Config failed: " + err2.Error(), Case: cs})
			cancel()
			continue
		}
		want2 := c01RCfg{Name: "from-source", Limits: map[string]int{"rps": a, "burst": b}, Tags: []string{"t0", "t1"}, Sub: &c01RSub{Weights: map[string]int{"w": a, "v": b}, Hosts: []string{"h-edited"}}, Opt: &seven}
		if !reflect.DeepEqual(*d2.View(), want2) {
			res.Add(Finding{Kind: "violation", What: "second instance built from the same (edited) defaults object: a leaf no source set is not the caller's current default", Case: cs, Expected: show(&want2), Observed: show(d2.View())})
		}
		if !reflect.DeepEqual(*d1.View(), want1) {
			res.Add(Finding{Kind: "violation", What: "the first instance's config changed when the caller edited its defaults / built a second instance", Case: cs, Expected: show(&want1), Observed: show(d1.View())})
		}
		res.Case(fmt.Sprintf("R1|%d|%d", a, b), true, cs)

		// (ii) a watching source stops setting leaves
		cs2 := map[string]any{"stream": "a watching source stops setting a leaf", "a": a, "b": b}
		first := fmt.Sprintf(`{"Limits":{"rps":%d},"Tags":["s0","s1"],"Sub":{"Weights":{"x":%d}},"Opt":%d}`, b, b, b)
		w := &c01RWatcher{first: first}
		defaults3 := &c01RCfg{Name: "dflt", Limits: map[string]int{"rps": a}, Tags: []string{"t0"}, Sub: &c01RSub{Weights: map[string]int{"w": a}, Hosts: []string{"h0"}}, Opt: &seven}
		d3, err3 := dials.Config(ctx, defaults3, w)
		if err3 != nil {
			res.Add(Finding{Kind: "violation", What: "Config with a watcher failed: " + err3.Error(), Case: cs2})
			cancel()
			continue
		}
		wantSet := c01RCfg{Name: "dflt", Limits: map[string]int{"rps": b}, Tags: []string{"s0", "s1"}, Sub: &c01RSub{Weights: map[string]int{"x": b}, Hosts: []string{"h0"}}, Opt: &b}
		if !reflect.DeepEqual(*d3.View(), wantSet) {
			res.Add(Finding{Kind: "violation", What: "initial stack with a watcher: differs from the leaf-wise precedence rule", Case: cs2, Expected: show(&wantSet), Observed: show(d3.View())})
		}
		later := `{"Name":"now-only-the-name"}`
		if r.Bool() {
			later = `{}`
		}
		cs2["later"] = later
		v, derr := c01RDecode(later, w.typ)
		if derr == nil {
			derr = w.args.BlockingReportNewValue(ctx, v)
		}
		if derr != nil {
			res.Add(Finding{Kind: "violation", What: "the watcher's report failed: " + derr.Error(), Case: cs2})
		} else {
			wantBack := c01RCfg{Name: "dflt", Limits: map[string]int{"rps": a}, Tags: []string{"t0"}, Sub: &c01RSub{Weights: map[string]int{"w": a}, Hosts: []string{"h0"}}, Opt: &seven}
			if later != `{}` {
				wantBack.Name = "now-only-the-name"
			}
			if !reflect.DeepEqual(*d3.View(), wantBack) {
				res.Add(Finding{Kind: "violation", What: "the source stopped setting Limits / Tags / Sub / Opt: the leaves must revert to the defaults", Case: cs2, Expected: show(&wantBack), Observed: show(d3.View())})
			}
		}
		res.Case(fmt.Sprintf("R2|%d|%d|%s", a, b, later), true, cs2)
		res.Count("reuse/same-defaults-twice+source-stops-setting")

		// (iii) a default map whose VALUES are maps, one of them also referenced by a later field: every leaf no source
		// set is the caller's default, whatever order the map is walked in
		cs3 := map[string]any{"stream": "defaults: a map of maps, one inner map shared with a later field", "a": a}
		lim := map[string]map[string]int{}
		for k := 0; k < 8; k++ {
			lim[fmt.Sprintf("r%d", k)] = map[string]int{"quota": 100*a + k}
		}
		shared := fmt.Sprintf("r%d", r.Intn(8))
		d4 := &c01MCfg{Name: "dflt", Limits: lim, Fallback: lim[shared]}
		var srcs []dials.Source
		if r.Bool() {
			srcs = append(srcs, &static.StringSource{Data: `{"Name":"from-source"}`, Decoder: &jsondec.Decoder{}})
		}
		dd, err4 := dials.Config(ctx, d4, srcs...)
		if err4 != nil {
			res.Add(Finding{Kind: "violation", What: "Config failed: " + err4.Error(), Case: cs3})
		} else {
			v := dd.View()
			if !reflect.DeepEqual(v.Fallback, d4.Fallback) || !reflect.DeepEqual(v.Limits, d4.Limits) {
				res.Add(Finding{Kind: "violation", What: "a leaf no source set is not the caller's default (map of maps, an inner map shared with a later field)", Case: cs3,
					Expected: fmt.Sprintf("Fallback=%v (= Limits[%s])", d4.Fallback, shared), Observed: fmt.Sprintf("Fallback=%v Limits=%v", v.Fallback, v.Limits)})
			}
		}
		res.Case(fmt.Sprintf("R3|%d|%s|%d", a, shared, len(srcs)), true, cs3)

		// (iv) a field of interface type whose default holds a function (a hook) between ordinary leaves: whatever the
		// library makes of that field, the leaves around it get THEIR values - nothing shifts into a neighbour
		cs4 := map[string]any{"stream": "an interface-typed field holding a func between ordinary leaves", "a": a, "b": b}
		d5 := &c01HCfg{Name: "dflt", Hook: func() {}, Port: a, Tail: "tail-default", Last: 1}
		var dh *dials.Dials[c01HCfg]
		var err5 error
		if pn := catch(func() {
			dh, err5 = dials.Config(ctx, d5, &static.StringSource{Data: fmt.Sprintf(`{"Port":%d,"Tail":"from-source"}`, b), Decoder: &jsondec.Decoder{}})
		}); pn != "" {
			res.Add(Finding{Kind: "violation", What: "Config panicked while stacking (a value was shifted into a field of another type): " + pn, Case: cs4})
		} else if err5 != nil {
			res.Add(Finding{Kind: "violation", What: "Config failed on a config with an interface-typed hook field: " + err5.Error(), Case: cs4})
		} else if v := dh.View(); v.Name != "dflt" || v.Port != b || v.Tail != "from-source" || v.Last != 1 {
			res.Add(Finding{Kind: "violation", What: "a leaf next to a skipped / opaque field did not get its own value (a value shifted into a neighbouring field)", Case: cs4,
				Expected: fmt.Sprintf("{Name:dflt Port:%d Tail:from-source Last:1}", b), Observed: fmt.Sprintf("{Name:%s Port:%d Tail:%s Last:%d}", v.Name, v.Port, v.Tail, v.Last)})
		}
		res.Case(fmt.Sprintf("R4|%d|%d", a, b), true, cs4)

		// (v) two watching layers set leaves below the same nil-default pointer to a struct whose members are all
		// nil-able (its pointerified type is the type itself); then the LATER layer reports a value that no longer sets
		// its leaf: the leaf reverts to "unset", the earlier layer's leaf stays - nothing of an earlier stack survives
		cs5 := map[string]any{"stream": "two layers below one pointer to an all-nil-able struct; the later layer stops setting its leaf", "a": a, "b": b}
		lo := &c01RWatcher{first: fmt.Sprintf(`{"Lim":{"Hosts":["h%d"]}}`, a)}
		hi := &c01RWatcher{first: fmt.Sprintf(`{"Lim":{"Quotas":{"q":%d}}}`, b)}
		d6, err6 := dials.Config(ctx, &c01PCfg{Name: "dflt"}, lo, hi)
		if err6 != nil {
			res.Add(Finding{Kind: "violation", What: "Config failed: " + err6.Error(), Case: cs5})
		} else {
			show := func(v *c01PCfg) string {
				if v.Lim == nil {
					return "Lim=nil"
				}
				return fmt.Sprintf("Lim={Hosts:%v Quotas:%v}", v.Lim.Hosts, v.Lim.Quotas)
			}
			if got, want := show(d6.View()), fmt.Sprintf("Lim={Hosts:[h%d] Quotas:map[q:%d]}", a, b); got != want {
				res.Add(Finding{Kind: "violation", What: "two layers below one pointer: each leaf is the value of the layer that set it", Case: cs5, Expected: want, Observed: got})
			}
			steps := []struct{ w *c01RWatcher; doc, want string }{
				{hi, `{"Name":"hi-only-name"}`, fmt.Sprintf("Lim={Hosts:[h%d] Quotas:map[]}", a)},
				{lo, fmt.Sprintf(`{"Lim":{"Hosts":["g%d","g"]}}`, b), fmt.Sprintf("Lim={Hosts:[g%d g] Quotas:map[]}", b)},
				{hi, fmt.Sprintf(`{"Lim":{"Quotas":{"z":%d}}}`, a), fmt.Sprintf("Lim={Hosts:[g%d g] Quotas:map[z:%d]}", b, a)},
				{lo, `{}`, fmt.Sprintf("Lim={Hosts:[] Quotas:map[z:%d]}", a)},
			}
			for si, st := range steps {
				val, derr := c01RDecode(st.doc, st.w.typ)
				if derr != nil {
					res.Add(Finding{Kind: "violation", What: "harness: decoding the report failed: " + derr.Error(), Case: cs5})
					break
				}
				rc, rcancel := context.WithTimeout(ctx, 5*time.Second)
				rerr := st.w.args.BlockingReportNewValue(rc, val)
				rcancel()
				if rerr != nil {
					res.Add(Finding{Kind: "violation", What: "blocking report failed: " + rerr.Error(), Case: cs5})
					break
				}
				if got := show(d6.View()); got != st.want {
					res.Add(Finding{Kind: "violation", What: fmt.Sprintf("re-stack %d: a leaf the reporting layer no longer sets still holds that layer's earlier value (or another layer's leaf was lost)", si+1), Case: cs5, Expected: st.want, Observed: got})
					break
				}
			}
		}
		res.Case(fmt.Sprintf("R5|%d|%d", a, b), true, cs5)
		cancel()
	}
}

type c01PCfg struct {
	Name string
	Lim  *struct {
		Hosts  []string
		Quotas map[string]int
	}
}

type c01HCfg struct {
	Name string
	Hook interface{}
	Port int
	Tail string
	Last int
}

type c01MCfg struct {
	Name     string
	Limits   map[string]map[string]int
	Fallback map[string]int
}
