package main

// C02: config versions are isolated snapshots; inputs are never modified.
//  stream A  compose (hook VerifCompose) on random config types whose defaults and layers contain
//            shared / nested pointers, maps and slices with spare capacity: alias oracle, input
//            immutability, compose twice => equal but disjoint.
//  stream B  histories through a real Dials (public API) with fake watching sources that reuse their
//            own memory between reports: every version vs defaults, every value ever reported, every
//            other version.
//  streams C, D (c02ov.go)  the real overlay.go / compose vs the heap-level model the `_real` theorems of
//            Props/C02.lean are about (Model/HeapOverlay.lean).

import (
	"context"
	"fmt"
	"os"
	"reflect"
	"strings"

	"github.com/vimeo/dials"
	"github.com/vimeo/dials/ptrify"
)

func addrsOf(v reflect.Value) map[uintptr]bool {
	_, a := canonGo(v, map[string]int{})
	return a
}

func canonOf(v reflect.Value) string {
	s, _ := canonGo(v, map[string]int{})
	return s
}

func intersects(a, b map[uintptr]bool) bool {
	for k := range a {
		if b[k] {
			return true
		}
	}
	return false
}

// aliasWithin makes fields of identical reference type inside v share memory (v is a struct value).
func aliasWithin(r *RNG, v reflect.Value) {
	byType := map[reflect.Type][]reflect.Value{}
	var walk func(x reflect.Value, depth int)
	walk = func(x reflect.Value, depth int) {
		if depth > 4 {
			return
		}
		switch x.Kind() {
		case reflect.Struct:
			if isTUStruct(x.Type()) {
				return
			}
			for i := 0; i < x.NumField(); i++ {
				if x.Field(i).CanSet() {
					walk(x.Field(i), depth+1)
				}
			}
		case reflect.Ptr:
			byType[x.Type()] = append(byType[x.Type()], x)
			if !x.IsNil() {
				walk(x.Elem(), depth+1)
			}
		case reflect.Map, reflect.Slice:
			byType[x.Type()] = append(byType[x.Type()], x)
		}
	}
	walk(v, 0)
	for _, vs := range byType {
		if len(vs) >= 2 && r.Chance(50) {
			a, b := vs[r.Intn(len(vs))], vs[r.Intn(len(vs))]
			if a.CanSet() && !b.IsNil() {
				a.Set(b)
			}
		}
	}
}

// truncateSome re-slices some non-nil slices inside v to length 0 (capacity kept): an empty slice that
// still owns a backing array
func truncateSome(r *RNG, v reflect.Value, depth int) {
	if depth > 4 {
		return
	}
	switch v.Kind() {
	case reflect.Struct:
		if isTUStruct(v.Type()) {
			return
		}
		for i := 0; i < v.NumField(); i++ {
			if v.Field(i).CanSet() {
				truncateSome(r, v.Field(i), depth+1)
			}
		}
	case reflect.Ptr:
		if !v.IsNil() {
			truncateSome(r, v.Elem(), depth+1)
		}
	case reflect.Slice:
		if !v.IsNil() && v.Cap() > 0 && v.CanSet() && r.Chance(25) {
			v.Set(v.Slice(0, 0))
		}
	}
}

// valueForm hands a struct value over the way a source may: as a pointer, as the addressable struct
// it points to, or as a plain (non-addressable) struct value
func valueForm(r *RNG, p reflect.Value) reflect.Value {
	switch r.Intn(3) {
	case 0:
		return p
	case 1:
		return p.Elem()
	}
	return reflect.ValueOf(p.Elem().Interface())
}

// history config: reference-typed fields at two levels
type HInner struct {
	Q *int
	L []string
	M map[string]int
}

type HC struct {
	P *int
	M map[string]int
	S []int
	N *HInner
	V HInner
	A [2]*int
	Z int
	// maps as map values; the same inner map may sit under two keys
	MM map[string]map[string]int
}

type hcSource struct {
	idx        int
	pool       *hcPool
	wa         dials.WatchArgs
	typ        *dials.Type
	firstGiven reflect.Value // first, in the form handed to dials
	first      reflect.Value
}

// hcPool: memory the source keeps and reuses between reports
type hcPool struct {
	ints []*int
	maps []map[string]int
	strs [][]string
	nums [][]int
}

func (s *hcSource) build(r *RNG, t *dials.Type) reflect.Value {
	out := reflect.New(t.Type())
	e := out.Elem()
	pi := func() *int {
		if len(s.pool.ints) > 0 && r.Chance(50) {
			return s.pool.ints[r.Intn(len(s.pool.ints))]
		}
		x := r.Intn(1000)
		s.pool.ints = append(s.pool.ints, &x)
		return &x
	}
	pm := func() map[string]int {
		if len(s.pool.maps) > 0 && r.Chance(50) {
			return s.pool.maps[r.Intn(len(s.pool.maps))]
		}
		m := map[string]int{fmt.Sprintf("k%d", r.Intn(5)): r.Intn(100)}
		s.pool.maps = append(s.pool.maps, m)
		return m
	}
	setField := func(name string, val any) {
		f := e.FieldByName(name)
		if !f.IsValid() {
			return
		}
		v := reflect.ValueOf(val)
		if v.Type().AssignableTo(f.Type()) {
			f.Set(v)
		} else if f.Kind() == reflect.Ptr && v.Type().AssignableTo(f.Type().Elem()) {
			p := reflect.New(f.Type().Elem())
			p.Elem().Set(v)
			f.Set(p)
		}
	}
	if r.Chance(50) {
		setField("P", pi())
	}
	if r.Chance(50) {
		setField("M", pm())
	}
	if r.Chance(50) {
		nums := make([]int, r.Intn(3), 6)
		nums[:1][0] = r.Intn(50)
		if len(s.pool.nums) > 0 && r.Chance(50) {
			nums = s.pool.nums[r.Intn(len(s.pool.nums))]
		} else {
			s.pool.nums = append(s.pool.nums, nums)
		}
		setField("S", nums)
	}
	if r.Chance(30) {
		setField("Z", r.Intn(1000))
	}
	if r.Chance(40) {
		a := pm()
		b := a
		if r.Chance(40) {
			b = pm()
		}
		setField("MM", map[string]map[string]int{"a": a, "b": b})
	}
	if r.Chance(40) {
		setField("A", [2]*int{pi(), pi()})
	}
	// nested pointerified structs N and V
	for _, name := range []string{"N", "V"} {
		if !r.Chance(45) {
			continue
		}
		f := e.FieldByName(name)
		if !f.IsValid() || f.Kind() != reflect.Ptr {
			continue
		}
		in := reflect.New(f.Type().Elem())
		ie := in.Elem()
		if q := ie.FieldByName("Q"); q.IsValid() && r.Chance(60) {
			q.Set(reflect.ValueOf(pi()))
		}
		if l := ie.FieldByName("L"); l.IsValid() && r.Chance(60) {
			ls := []string{"a", "b", "c"}[:r.Intn(4)]
			if len(s.pool.strs) > 0 && r.Chance(50) {
				ls = s.pool.strs[r.Intn(len(s.pool.strs))]
			} else {
				s.pool.strs = append(s.pool.strs, ls)
			}
			l.Set(reflect.ValueOf(ls))
		}
		if m := ie.FieldByName("M"); m.IsValid() && r.Chance(60) {
			m.Set(reflect.ValueOf(pm()))
		}
		f.Set(in)
	}
	return out
}

func (s *hcSource) Value(ctx context.Context, t *dials.Type) (reflect.Value, error) {
	return s.firstGiven, nil
}

func (s *hcSource) Watch(ctx context.Context, t *dials.Type, wa dials.WatchArgs) error {
	s.wa, s.typ = wa, t
	return nil
}

func init() { register("C02", checkC02) }

func checkC02(c *Ctx) {
	r := c.RNG
	res := c.Res
	res.Rule = "stream A: compose on random config types (as C01) whose defaults and layers have internally shared pointers/maps/slices (spare capacity), 0-4 layers, compose run twice: " +
		"result vs defaults and every layer (address sets through exported fields must be disjoint), inputs unchanged, the two results equal but disjoint; " +
		"stream B: histories of 1-8 blocking reports from 1-3 fake watching sources that reuse their own pointers/maps/slices between reports, through a real Dials: after each step the view vs defaults, " +
		"every value ever returned or reported, every earlier version, and all inputs unchanged. " +
		"stream C: VerifOverlay (deep copy of the overlay value + overlayStruct in place) on random config types extended with reference-holding leaves ([]*int, map[string]*int, [2]*int, []map, map[string][]int, a text-unmarshaler struct with a pointer and a slice), " +
		"base and overlay value with shared pointers/maps/slices inside each and (40% of the cases) across the two, overlay handed over as addressable or plain struct: heap model (hp overlay) == implementation on outcome class, canonical result graph incl. slice identity, " +
		"the set and new contents of the pre-existing cells that were modified, freshness of what the base newly reaches; oracle: only cells the base reached may be modified, nothing pre-existing becomes newly reachable. " +
		"stream D: VerifCompose with 0-3 layers sharing memory among defaults and layers vs the heap model of compose (hp compose): same comparison. " +
		"non-trivial: A = at least one layer and at least 2 reference-typed addresses in the result; B = at least 3 reports; C = outcome ok, the base changed and reaches at least 3 addresses; D = ok, at least one layer, at least 3 addresses; distinct = by canonical input text"
	rtEqualReports(c, c.scale(60, 1500))
	rtReuse(c, c.scale(40, 1000))
	nA, nB := c.scale(1500, 40000), c.scale(300, 8000)
	defer checkC02Overlay(c)                          // streams C and D (c02ov.go)
	if only := os.Getenv("C02_STREAMS"); only != "" { // debugging aid: e.g. C02_STREAMS=CD runs the model streams alone
		if !strings.Contains(only, "A") {
			nA = 0
		}
		if !strings.Contains(only, "B") {
			nB = 0
		}
	}
	for i := 0; i < nA; i++ {
		T := genStructType(r, 1+r.Intn(3))
		if r.Chance(10) {
			T = c01Statics[r.Intn(len(c01Statics))]
		}
		def := reflect.New(T)
		genBase(r, def.Elem(), 3)
		aliasWithin(r, def.Elem())
		truncateSome(r, def.Elem(), 0)
		var PT reflect.Type
		if pn := catch(func() { PT = ptrify.Pointerify(T, def.Elem()) }); pn != "" {
			continue
		}
		nl := r.Intn(5)
		layers := make([]reflect.Value, nl)
		for k := range layers {
			lv := reflect.New(PT)
			genLayer(r, lv.Elem(), 30+r.Intn(60))
			aliasWithin(r, lv.Elem())
			truncateSome(r, lv.Elem(), 0)
			layers[k] = lv
		}
		given := make([]reflect.Value, nl)
		for k, l := range layers {
			given[k] = valueForm(r, l)
		}
		defBefore := canonOf(def.Elem())
		layBefore := make([]string, nl)
		inAddrs := addrsOf(def.Elem())
		for k, l := range layers {
			layBefore[k] = canonOf(l.Elem())
			for a := range addrsOf(l.Elem()) {
				inAddrs[a] = true
			}
		}
		cs := map[string]any{"stream": "compose", "type": T.String(), "default": defBefore, "layers": layBefore}
		var o1, o2 any
		var e1, e2 error
		if pn := catch(func() {
			o1, e1 = dials.VerifCompose(def.Interface(), given)
			o2, e2 = dials.VerifCompose(def.Interface(), given)
		}); pn != "" || e1 != nil || e2 != nil {
			res.Add(Finding{Kind: "violation", What: fmt.Sprintf("compose failed: %s %v %v", pn, e1, e2), Case: cs})
			continue
		}
		r1, r2 := reflect.ValueOf(o1).Elem(), reflect.ValueOf(o2).Elem()
		a1, a2 := addrsOf(r1), addrsOf(r2)
		if T.Size() > 0 { // zero-size objects all live at one address
			a1[reflect.ValueOf(o1).Pointer()], a2[reflect.ValueOf(o2).Pointer()] = true, true
			inAddrs[def.Pointer()] = true
		}
		res.Count(fmt.Sprintf("A/layers=%d", nl))
		res.Count(fmt.Sprintf("A/result_addresses=%d", min(len(a1)/2*2, 12)))
		if intersects(a1, inAddrs) || intersects(a2, inAddrs) {
			res.Add(Finding{Kind: "violation", What: "the stacked config shares memory with the defaults or a source value", Case: cs, Observed: canonOf(r1)})
		}
		if intersects(a1, a2) {
			res.Add(Finding{Kind: "violation", What: "stacking the same inputs twice yields results that share memory", Case: cs})
		}
		if canonOf(r1) != canonOf(r2) {
			res.Add(Finding{Kind: "violation", What: "stacking the same inputs twice yields different results", Case: cs, Expected: canonOf(r1), Observed: canonOf(r2)})
		}
		if canonOf(def.Elem()) != defBefore {
			res.Add(Finding{Kind: "violation", What: "compose modified the caller's defaults", Case: cs, Expected: defBefore, Observed: canonOf(def.Elem())})
		}
		for k, l := range layers {
			if canonOf(l.Elem()) != layBefore[k] {
				res.Add(Finding{Kind: "violation", What: fmt.Sprintf("compose modified source value %d", k), Case: cs, Expected: layBefore[k], Observed: canonOf(l.Elem())})
			}
		}
		res.Case("A|"+T.String()+"|"+defBefore+"|"+strings.Join(layBefore, "|"), nl >= 1 && len(a1) >= 3, cs)
	}

	for i := 0; i < nB; i++ {
		nsrc := 1 + r.Intn(3)
		steps := 1 + r.Intn(8)
		x, y := 7, 9
		defaults := &HC{P: &x, M: map[string]int{"d": 1}, S: make([]int, 1, 4), N: &HInner{Q: &y, L: []string{"dl"}}, Z: 3}
		if r.Chance(30) {
			defaults.V.M = defaults.M // shared inside the defaults
			defaults.A = [2]*int{&x, &x}
		}
		if r.Chance(30) {
			defaults.N = nil
		}
		defBefore := canonOf(reflect.ValueOf(defaults).Elem())
		pool := &hcPool{}
		srcs := make([]dials.Source, nsrc)
		hs := make([]*hcSource, nsrc)
		ptT := &dials.Type{}
		_ = ptT
		pt := ptrify.Pointerify(reflect.TypeOf(HC{}), reflect.ValueOf(defaults).Elem())
		typ := dials.NewType(pt)
		for k := range srcs {
			h := &hcSource{idx: k, pool: pool}
			if r.Chance(50) {
				h.pool = &hcPool{} // own pool
			}
			h.first = h.build(r, typ)
			h.firstGiven = valueForm(r, h.first)
			hs[k], srcs[k] = h, h
		}
		ctx, cancel := context.WithCancel(context.Background())
		d, err := dials.Config(ctx, defaults, srcs...)
		cs := map[string]any{"stream": "history", "sources": nsrc, "steps": steps}
		if err != nil {
			res.Add(Finding{Kind: "violation", What: "Config failed: " + err.Error(), Case: cs})
			cancel()
			continue
		}
		type snap struct {
			v     reflect.Value
			canon string
		}
		var inputs []snap
		inputs = append(inputs, snap{reflect.ValueOf(defaults).Elem(), defBefore})
		for _, h := range hs {
			inputs = append(inputs, snap{h.first.Elem(), canonOf(h.first.Elem())})
		}
		var versions []snap
		var trace []string
		check := func(step string) {
			v := reflect.ValueOf(d.View())
			va := addrsOf(v.Elem())
			va[v.Pointer()] = true
			for _, in := range inputs {
				ia := addrsOf(in.v)
				if in.v.CanAddr() {
					ia[in.v.Addr().Pointer()] = true
				}
				if intersects(va, ia) {
					res.Add(Finding{Kind: "violation", What: "a config version shares memory with the defaults or with a value a source returned or reported (" + step + ")", Case: cs, Observed: trace})
				}
				if canonOf(in.v) != in.canon {
					res.Add(Finding{Kind: "violation", What: "an input (defaults or a source's value) was modified (" + step + ")", Case: cs, Expected: in.canon, Observed: canonOf(in.v)})
				}
			}
			for _, old := range versions {
				if old.v.Pointer() == v.Pointer() {
					continue
				}
				oa := addrsOf(old.v.Elem())
				oa[old.v.Pointer()] = true
				if intersects(va, oa) {
					res.Add(Finding{Kind: "violation", What: "two config versions share memory (" + step + ")", Case: cs, Observed: trace})
				}
				if canonOf(old.v.Elem()) != old.canon {
					res.Add(Finding{Kind: "violation", What: "an earlier config version changed after a re-stack (" + step + ")", Case: cs, Expected: old.canon, Observed: canonOf(old.v.Elem())})
				}
			}
			versions = append(versions, snap{v, canonOf(v.Elem())})
		}
		check("initial")
		for s := 0; s < steps; s++ {
			h := hs[r.Intn(nsrc)]
			val := h.build(r, h.typ)
			inputs = append(inputs, snap{val.Elem(), canonOf(val.Elem())})
			trace = append(trace, fmt.Sprintf("src%d:%s", h.idx, canonOf(val.Elem())))
			if err := h.wa.BlockingReportNewValue(ctx, valueForm(r, val)); err != nil {
				res.Add(Finding{Kind: "violation", What: "blocking report failed: " + err.Error(), Case: cs})
				break
			}
			check(fmt.Sprintf("after report %d", s))
		}
		cancel()
		cs["trace"] = trace
		res.Count(fmt.Sprintf("B/steps=%d", steps))
		res.Case("B|"+defBefore+"|"+strings.Join(trace, "|"), steps >= 3, cs)
		if res.Bad() > 20 {
			break
		}
	}
}
