package main

// C02 (and C05), implementation-only stream: a source reports a value EQUAL to the one it reported before (a fresh
// object with the same content; the same file content written again).  The report is installed as a new version, and a
// new version is a new object: its pointer, maps, slices and pointees are disjoint from every earlier version, so a
// holder of the previous version that writes to it (or scrubs it) cannot touch the current one.

import (
	"context"
	"fmt"
	"reflect"
	"time"

	"github.com/vimeo/dials"
)

func rtEqualReports(c *Ctx, n int) {
	r := c.RNG
	res := c.Res
	for i := 0; i < n; i++ {
		seven := 7
		defaults := &ruCfg{Name: "default", Count: 1, Limits: map[string]int{"d": 1}, Tags: []string{"dt"}, Opt: &seven, Sub: ruSub{Weights: map[string]int{"dw": 1}}}
		src := &ruSrc{}
		ctx, cancel := context.WithCancel(context.Background())
		d, err := dials.Config(ctx, defaults, src)
		steps := 3 + r.Intn(5)
		cs := map[string]any{"stream": "equal values reported again", "steps": steps}
		if err != nil {
			res.Add(Finding{Kind: "violation", What: "Config failed: " + err.Error(), Case: cs})
			cancel()
			continue
		}
		var versions []*ruCfg
		var snaps []string
		var trace []string
		cur := ruContent{name: "n0", count: 1, limits: map[string]int{"a": 1}, tags: []string{"t"}, opt: 1, hasOpt: true, w: map[string]int{"w": 1}, hosts: []string{"h0", "h"}, quota: 1}
		failed := false
		for k := 1; k <= steps && !failed; k++ {
			if r.Chance(40) { // otherwise: the same content again
				cur = ruContent{name: fmt.Sprintf("n%d", k), count: k, limits: map[string]int{"a": k, "b": 2 * k}, tags: []string{fmt.Sprintf("t%d", k)}, opt: k, hasOpt: true, w: map[string]int{"w": k}, hosts: []string{fmt.Sprintf("h%d", k), "h"}, quota: k}
				trace = append(trace, fmt.Sprintf("step %d: new content", k))
			} else {
				trace = append(trace, fmt.Sprintf("step %d: the same content again", k))
			}
			cs["trace"] = trace
			// a FRESH value object each time (the reuse of one object is rtReuse's subject)
			src.obj = reflect.New(src.obj.Type().Elem())
			src.write(cur)
			rctx, rc := context.WithTimeout(ctx, 5*time.Second)
			rerr := src.wa.BlockingReportNewValue(rctx, src.obj)
			rc()
			if rerr != nil {
				res.Add(Finding{Kind: "violation", What: "blocking report failed: " + rerr.Error(), Case: cs})
				failed = true
				break
			}
			v := d.View()
			for vi, old := range versions {
				switch {
				case old == v:
					res.Add(Finding{Kind: "violation", What: fmt.Sprintf("step %d: the new version is the very struct that version #%d is (two serials, one object)", k, vi), Case: cs})
					failed = true
				case len(v.Limits) > 0 && reflect.ValueOf(old.Limits).Pointer() == reflect.ValueOf(v.Limits).Pointer():
					res.Add(Finding{Kind: "violation", What: fmt.Sprintf("step %d: the new version shares its Limits map with version #%d", k, vi), Case: cs})
					failed = true
				case len(v.Tags) > 0 && len(old.Tags) > 0 && &old.Tags[0] == &v.Tags[0]:
					res.Add(Finding{Kind: "violation", What: fmt.Sprintf("step %d: the new version shares the backing array of Tags with version #%d", k, vi), Case: cs})
					failed = true
				case v.Opt != nil && old.Opt == v.Opt:
					res.Add(Finding{Kind: "violation", What: fmt.Sprintf("step %d: the new version shares the Opt pointee with version #%d", k, vi), Case: cs})
					failed = true
				}
				if failed {
					break
				}
			}
			if failed {
				break
			}
			versions = append(versions, v)
			snaps = append(snaps, v.show())
			// the holder of the previous version scrubs it
			if len(versions) >= 2 {
				prev := versions[len(versions)-2]
				prev.Name = "scrubbed"
				for kk := range prev.Limits {
					prev.Limits[kk] = -1
				}
				if len(prev.Tags) > 0 {
					prev.Tags[0] = "scrubbed"
				}
				if prev.Opt != nil {
					*prev.Opt = -1
				}
				snaps[len(snaps)-2] = prev.show()
				if now := d.View().show(); now != snaps[len(snaps)-1] {
					res.Add(Finding{Kind: "violation", What: fmt.Sprintf("step %d: the installed version changed when the holder of the previous version wrote to it", k), Case: cs, Expected: snaps[len(snaps)-1], Observed: now})
					failed = true
				}
			}
		}
		cancel()
		res.Count("equal-reports")
		res.Case(fmt.Sprint("EQ|", trace), steps >= 3, cs)
	}
}

// rtSkipInitEqual (C04): SkipInitialVerification lets an invalid initial stack in - and nothing else.  An update whose
// stack EQUALS that unverified config is an update like any other: verified, found invalid, rejected (error to the
// blocking reporter, view and serial unchanged, OnNewConfig silent, OnWatchedError told).
func rtSkipInitEqual(c *Ctx, n int) {
	res := c.Res
	for i := 0; i < n; i++ {
		seven := 7
		defaults := &ruCfg{Name: "default", Count: -5, Limits: map[string]int{"d": 1}, Tags: []string{"dt"}, Opt: &seven, Sub: ruSub{Weights: map[string]int{"dw": 1}}} // Count < 0: invalid
		src := &ruSrc{}
		ctx, cancel := context.WithCancel(context.Background())
		news, errs := 0, 0
		done := make(chan struct{}, 8)
		d, err := dials.Params[ruCfg]{SkipInitialVerification: true,
			OnNewConfig:    func(context.Context, *ruCfg, *ruCfg) { news++; done <- struct{}{} },
			OnWatchedError: func(context.Context, error, *ruCfg, *ruCfg) { errs++; done <- struct{}{} },
		}.Config(ctx, defaults, src)
		cs := map[string]any{"stream": "SkipInitialVerification, then an update equal to the unverified initial config", "round": i}
		if err != nil {
			res.Add(Finding{Kind: "violation", What: "Config with SkipInitialVerification failed on an invalid initial stack: " + err.Error(), Case: cs})
			cancel()
			continue
		}
		_, ser0 := d.ViewVersion()
		before := d.View().show()
		// the source reports a value that sets nothing new (an empty object, or the same invalid count again)
		src.obj = reflect.New(src.obj.Type().Elem())
		if i%2 == 1 {
			cnt := -5
			src.obj.Elem().FieldByName("Count").Set(reflect.ValueOf(&cnt))
		}
		rctx, rc := context.WithTimeout(ctx, 5*time.Second)
		rerr := src.wa.BlockingReportNewValue(rctx, src.obj)
		rc()
		select {
		case <-done:
		case <-time.After(2 * time.Second):
		}
		_, ser1 := d.ViewVersion()
		switch {
		case rerr == nil:
			res.Add(Finding{Kind: "violation", What: "an update whose stack fails Verify was acknowledged with nil (its stack equals the unverified initial config)", Case: cs})
		case dials.VerifCfgSerial(ser1) != dials.VerifCfgSerial(ser0) || d.View().show() != before:
			res.Add(Finding{Kind: "violation", What: "a rejected update changed the view or the serial", Case: cs})
		case news != 0:
			res.Add(Finding{Kind: "violation", What: "OnNewConfig was handed a config that fails Verify", Case: cs})
		case errs != 1:
			res.Add(Finding{Kind: "violation", What: fmt.Sprintf("OnWatchedError was called %d times for one rejected update (queue far from full)", errs), Case: cs})
		}
		cancel()
		res.Count("skipinit-equal-update")
		res.Case(fmt.Sprintf("SIE|%d", i%2), true, cs)
	}
}
