package main

// C15: text parsing inverts formatting and never wraps.
//  stream 1  integers of every width: canonical text and literals just inside / outside every range in
//            bases 2, 8, 10, 16 with prefixes and separators, through parse.String  — vs model, vs oracle
//  stream 2  integer slices through the flag helpers' String() and Set()            — vs model, vs oracle
//  stream 3  string slices / sets / maps / multimaps through the flag helpers       — token log vs model state machine, vs oracle
//  stream 4  floats, complex, bool, duration, plain strings                         — oracle only (strconv / time are external)
//  stream 5  arbitrary text into the collection parsers                            — token log vs model state machine

import (
	"fmt"
	"math"
	"math/big"
	"reflect"
	"sort"
	"strconv"
	"strings"
	"text/scanner"
	"time"
	"unicode/utf8"

	"github.com/vimeo/dials/parse"
	"github.com/vimeo/dials/sources/flag/flaghelper"
)

type intKind struct {
	name   string
	typ    reflect.Type
	signed bool
	bits   int
}

var intKinds = []intKind{
	{"i8", reflect.TypeOf(int8(0)), true, 8}, {"i16", reflect.TypeOf(int16(0)), true, 16}, {"i32", reflect.TypeOf(int32(0)), true, 32},
	{"i64", reflect.TypeOf(int64(0)), true, 64}, {"int", reflect.TypeOf(int(0)), true, 64},
	{"u8", reflect.TypeOf(uint8(0)), false, 8}, {"u16", reflect.TypeOf(uint16(0)), false, 16}, {"u32", reflect.TypeOf(uint32(0)), false, 32},
	{"u64", reflect.TypeOf(uint64(0)), false, 64}, {"uint", reflect.TypeOf(uint(0)), false, 64},
}

func (k intKind) rng() (lo, hi *big.Int) {
	one := big.NewInt(1)
	if k.signed {
		hi = new(big.Int).Lsh(one, uint(k.bits-1))
		lo = new(big.Int).Neg(hi)
		hi.Sub(hi, one)
		return
	}
	return big.NewInt(0), new(big.Int).Sub(new(big.Int).Lsh(one, uint(k.bits)), one)
}

// genNear: a value at or near a range boundary of the kind (possibly outside), or small, or random
func genNear(r *RNG, k intKind) *big.Int {
	lo, hi := k.rng()
	d := big.NewInt(int64(r.Intn(5) - 2))
	switch r.Intn(8) {
	case 0, 1:
		return new(big.Int).Add(hi, d)
	case 2, 3:
		return new(big.Int).Add(lo, d)
	case 4:
		return big.NewInt(int64(r.Intn(300) - 150))
	case 5:
		// a boundary of another width
		o := intKinds[r.Intn(len(intKinds))]
		olo, ohi := o.rng()
		if r.Bool() {
			return new(big.Int).Add(ohi, d)
		}
		return new(big.Int).Add(olo, d)
	default:
		span := new(big.Int).Sub(hi, lo)
		v := new(big.Int).SetUint64(r.U64())
		v.Mod(v, span.Add(span, big.NewInt(1)))
		return v.Add(v, lo)
	}
}

// literal renders v in a random Go literal style.
func literal(r *RNG, v *big.Int) string {
	neg := v.Sign() < 0
	a := new(big.Int).Abs(v)
	var body string
	switch r.Intn(7) {
	case 0:
		body = "0x" + a.Text(16)
	case 1:
		body = "0X" + strings.ToUpper(a.Text(16))
	case 2:
		body = "0b" + a.Text(2)
	case 3:
		body = "0o" + a.Text(8)
	case 4:
		body = "0" + a.Text(8)
	default:
		body = a.Text(10)
	}
	if r.Chance(25) && len(body) > 3 {
		// digit separators: after a prefix or between digits (only legal with base prefix or in decimal/octal per Go rules)
		i := 1 + r.Intn(len(body)-1)
		body = body[:i] + "_" + body[i:]
	}
	if neg {
		return "-" + body
	}
	if r.Chance(10) {
		return "+" + body
	}
	return body
}

func implParse(s string, t reflect.Type) (out string) {
	defer func() {
		if p := recover(); p != nil {
			out = "panic"
		}
	}()
	v, err := parse.String(s, t)
	if err != nil {
		return "err"
	}
	if v.Kind() == reflect.Ptr {
		v = v.Elem()
	}
	switch v.Kind() {
	case reflect.Int, reflect.Int8, reflect.Int16, reflect.Int32, reflect.Int64:
		return fmt.Sprintf("ok %d", v.Int())
	case reflect.Uint, reflect.Uint8, reflect.Uint16, reflect.Uint32, reflect.Uint64:
		return fmt.Sprintf("ok %d", v.Uint())
	}
	return fmt.Sprintf("ok %v", v.Interface())
}

// token log (verif hook in the parse package)
type tokLog struct{ toks []string }

func (l *tokLog) hook(where string, tok rune, text string, errCount int) {
	if errCount != 0 {
		l.toks = append(l.toks, "x")
		return
	}
	switch tok {
	case scanner.String, scanner.RawString:
		u, err := strconv.Unquote(text)
		if err != nil {
			l.toks = append(l.toks, "S")
		} else {
			l.toks = append(l.toks, "s:"+hexEnc(u))
		}
	case scanner.Ident, scanner.Int, scanner.Float:
		l.toks = append(l.toks, "w:"+hexEnc(text))
	case ',':
		l.toks = append(l.toks, ",")
	case ':':
		l.toks = append(l.toks, ":")
	case scanner.EOF:
		l.toks = append(l.toks, "e")
	default:
		l.toks = append(l.toks, "o")
	}
}

func genText(r *RNG, n int) string {
	const alpha = "abcXYZ019 ,:\"'`\\\t\n-_./+$%{}[]="
	b := make([]rune, n)
	for i := range b {
		switch x := r.Intn(100); {
		case x < 80:
			b[i] = rune(alpha[r.Intn(len(alpha))])
		case x < 88:
			b[i] = rune(r.Intn(32))
		case x < 94:
			b[i] = []rune{'é', 'ß', '世', '界', ' ', ' ', '😀'}[r.Intn(7)]
		default:
			b[i] = rune(32 + r.Intn(95))
		}
	}
	return string(b)
}

func genStr(r *RNG) string {
	switch r.Intn(10) {
	case 0:
		return ""
	case 1, 2, 3:
		return []string{"a", "b", "key", "v1", "x.y", "host:8080", "a,b", `q"uote`, `back\slash`, "tab\there", "nl\nx", "世界"}[r.Intn(12)]
	default:
		return genText(r, 1+r.Intn(8))
	}
}

func init() { register("C15", checkC15) }

func checkC15(c *Ctx) {
	r := c.RNG
	res := c.Res
	res.Rule = "eight streams: (1) integers of every width as canonical text and as Go literals (bases 2/8/10/16, prefixes, separators, signs) at and around every range boundary through parse.String; " +
		"(2) integer slices (sizes 0-40) through the flag helpers' String()/Set() incl. blank-padded and prefixed elements, 12% of the narrow-width slices with one blank-padded element outside the element type's range (must be an error); (3) string slices, sets, string maps and string-to-string-slice maps (sizes 0-40; strings with commas, colons, quotes, backslashes, control and non-ASCII characters, 15% invalid UTF-8 or non-printable non-ASCII without anything else that needs escaping) " +
		"through the flag helpers, the real scanner's token stream fed to the Lean state machines; (4) floats incl. extremes/denormals/infinities, complex, bool, duration, strings (oracle only); (5) arbitrary text into the collection parsers (token stream vs state machines); " +
		"(6) []S and map[K]V over every scalar kind (bool, string, ten integer kinds, float32/64, complex64/128; values incl. the extremes) through parse.String, with one out-of-range element in 15% (oracle only); (7) complex64/128 through parse.Complex*, parse.String and the flag helpers' Complex*Var.Set, canonical and out-of-range (oracle only). " +
		"(8) result ownership: parse a collection text (40% the empty text), write into the result, parse the same text again: the second result must be what the first was (oracle only). " +
		"non-trivial: (1) literal within 2 of a range boundary or with prefix/separator, (2,3) size >= 2, (4) non-zero finite, (5) at least 2 tokens; distinct = by input text"
	n1, n2, n3, n4, n5 := c.scale(8000, 700000), c.scale(2500, 200000), c.scale(5000, 500000), c.scale(3000, 300000), c.scale(4000, 300000)

	c15Generic(c, c.scale(4000, 300000), c.scale(2000, 150000))

	// ---- stream 1
	for i := 0; i < n1; i++ {
		k := intKinds[r.Intn(len(intKinds))]
		v := genNear(r, k)
		var text string
		canonical := r.Chance(40)
		if canonical {
			text = v.Text(10)
		} else {
			text = literal(r, v)
			if r.Chance(6) {
				text = []string{"", "-", "+", "0x", "0b", "_1", "1_", "1__2", "0_x1", "0x_1", "1e3", " 1", "1 ", "٣", "0o8", "0b2", "0xg"}[r.Intn(17)]
			}
		}
		lo, hi := k.rng()
		in := v.Cmp(lo) >= 0 && v.Cmp(hi) <= 0
		impl := implParse(text, k.typ)
		model := c.Drv.Ask("ps int " + k.name + " " + hexEnc(text))
		cs := map[string]any{"stream": "int", "kind": k.name, "text": text}
		res.Count("int/" + k.name + "/" + strings.SplitN(impl, " ", 2)[0])
		if model != "ood" && impl != model {
			res.Add(Finding{Kind: "disagreement", What: "parse.String(integer): model != implementation", Case: cs, Observed: impl, Model: model})
		}
		if impl == "panic" {
			res.Add(Finding{Kind: "violation", What: "parse.String panicked", Case: cs})
		}
		// oracle: canonical text of an in-range value parses to it; any accepted result equals the literal's value and is in range
		if canonical {
			if in && impl != "ok "+v.Text(10) {
				res.Add(Finding{Kind: "violation", What: "canonical text of an in-range integer does not parse back to it", Case: cs, Expected: v.Text(10), Observed: impl})
			}
			if !in && impl != "err" {
				res.Add(Finding{Kind: "violation", What: "out-of-range integer literal was accepted (wrapped / truncated / saturated)", Case: cs, Observed: impl})
			}
		} else if strings.HasPrefix(impl, "ok ") {
			got, _ := new(big.Int).SetString(impl[3:], 10)
			if got == nil || got.Cmp(lo) < 0 || got.Cmp(hi) > 0 {
				res.Add(Finding{Kind: "violation", What: "parse result outside the target type's range", Case: cs, Observed: impl})
			}
			if want, ok := new(big.Int).SetString(strings.ReplaceAll(text, "_", ""), 0); ok && got != nil && want.Cmp(got) != 0 {
				res.Add(Finding{Kind: "violation", What: "accepted literal has a different value (wrapped / truncated)", Case: cs, Expected: want.String(), Observed: impl})
			}
		}
		dlo, dhi := new(big.Int).Sub(v, lo), new(big.Int).Sub(v, hi)
		near := dlo.CmpAbs(big.NewInt(2)) <= 0 || dhi.CmpAbs(big.NewInt(2)) <= 0
		res.Case("1|"+k.name+"|"+text, near || strings.ContainsAny(text, "xXbBoO_"), cs)
	}

	// ---- stream 2: integer slices
	for i := 0; i < n2; i++ {
		size := r.Intn(6)
		if r.Chance(15) {
			size = r.Intn(41)
		}
		kind := r.Intn(8)
		var printed, kname string
		var vals []int64   // signed kinds
		var uvals []uint64 // unsigned kinds
		var parseBack func(string) (string, bool)
		mk := func(bits int, signed bool) {
			for j := 0; j < size; j++ {
				k := intKind{signed: signed, bits: bits}
				lo, hi := k.rng()
				v := genNear(r, k)
				if v.Cmp(lo) < 0 {
					v = lo
				}
				if v.Cmp(hi) > 0 {
					v = hi
				}
				if signed {
					vals = append(vals, v.Int64())
				} else {
					uvals = append(uvals, v.Uint64())
				}
			}
		}
		switch kind {
		case 0:
			kname = "i8"
			mk(8, true)
			printed, parseBack = intSliceVia[int8](vals, nil)
		case 1:
			kname = "i64"
			mk(64, true)
			printed, parseBack = intSliceVia[int64](vals, nil)
		case 2:
			kname = "u16"
			mk(16, false)
			printed, parseBack = intSliceVia[uint16](nil, uvals)
		case 3:
			kname = "int"
			mk(64, true)
			printed, parseBack = intSliceVia[int](vals, nil)
		case 4:
			kname = "u64"
			mk(64, false)
			printed, parseBack = intSliceVia[uint64](nil, uvals)
		case 5:
			kname = "uint"
			mk(64, false)
			printed, parseBack = intSliceVia[uint](nil, uvals)
		case 6:
			kname = "u8"
			mk(8, false)
			printed, parseBack = intSliceVia[uint8](nil, uvals)
		default:
			kname = "i32"
			mk(32, true)
			printed, parseBack = intSliceVia[int32](vals, nil)
		}
		text := printed
		lenient := r.Chance(30) && size > 0
		if lenient {
			parts := strings.Split(printed, ",")
			for j := range parts {
				if r.Bool() {
					parts[j] = strings.Repeat(" ", r.Intn(3)) + parts[j] + strings.Repeat("\t", r.Intn(2))
				}
			}
			text = strings.Join(parts, ",")
		} else if r.Chance(8) {
			text = []string{",", "1,", ",1", "1,,2", "1;2", "300", "-129", "70000", "1 2"}[r.Intn(9)]
		}
		padOOR := false
		if bits := map[string]int{"i8": 8, "u16": 16, "u8": 8, "i32": 32}[kname]; bits > 0 && size > 0 && r.Chance(12) {
			// one element outside the element type's range (but inside 64 bits), blank-padded like the lenient ones
			k := intKind{signed: kname[0] == 'i', bits: bits}
			lo, hi := k.rng()
			v := new(big.Int).Add(hi, big.NewInt(int64(1+r.Intn(300))))
			if k.signed && r.Bool() {
				v = new(big.Int).Sub(lo, big.NewInt(int64(1+r.Intn(300))))
			}
			lit := v.Text(10)
			if r.Chance(30) && v.Sign() > 0 {
				lit = "0x" + v.Text(16)
			}
			parts := strings.Split(printed, ",")
			parts[r.Intn(len(parts))] = []string{" ", "  ", "\t", ""}[r.Intn(4)] + lit + []string{"", " ", "\t"}[r.Intn(3)]
			text = strings.Join(parts, ",")
			padOOR = true
			res.Count("intslice/padded out-of-range element")
		}
		got, _ := parseBack(text)
		impl := "err"
		if got != "err" {
			impl = "ok " + got
		}
		if padOOR && impl != "err" {
			res.Add(Finding{Kind: "violation", What: "an element outside the element type's range was accepted (wrapped or truncated), blank padding included", Case: map[string]any{"stream": "intslice", "kind": kname, "text": text}, Expected: "err", Observed: impl})
		}
		model := c.Drv.Ask("ps intslice " + kname + " " + hexEnc(text))
		wantVals := joinInts(vals)
		if vals == nil {
			wantVals = joinInts(uvals)
		}
		cs := map[string]any{"stream": "intslice", "kind": kname, "values": wantVals, "text": text}
		res.Count("intslice/" + kname + "/" + strings.SplitN(impl, " ", 2)[0])
		if impl != model {
			res.Add(Finding{Kind: "disagreement", What: "integer slice parse: model != implementation", Case: cs, Observed: impl, Model: model})
		}
		if (text == printed || lenient) && !padOOR {
			want := "ok " + wantVals
			if impl != want {
				res.Add(Finding{Kind: "violation", What: "integer slice does not parse back from its printed form", Case: cs, Expected: want, Observed: impl})
			}
		}
		res.Case("2|"+kname+"|"+text, size >= 2, cs)
	}

	// ---- streams 3 and 5: collections with the token log
	tl := &tokLog{}
	parse.SetVerifTokenHook(tl.hook)
	defer parse.SetVerifTokenHook(nil)
	run := func(what, text string) (impl string, toks []string) {
		tl.toks = nil
		switch what {
		case "slice":
			v, err := parse.StringSlice(text)
			if err != nil {
				return "err", tl.toks
			}
			return "ok " + hexList(v), tl.toks
		case "set":
			v, err := parse.StringSet(text)
			if err != nil {
				return "err", tl.toks
			}
			return "ok " + hexList(sortedSet(v)), tl.toks
		case "map":
			v, err := parse.Map(text, reflect.TypeOf(map[string]string{}))
			if err != nil {
				return "err", tl.toks
			}
			return "ok " + pairsStr(v.Interface().(map[string]string)), tl.toks
		default:
			v, err := parse.StringStringSliceMap(text)
			if err != nil {
				return "err", tl.toks
			}
			return "ok " + multiStr(v), tl.toks
		}
	}
	modelOf := func(what, text string, toks []string) string {
		empty := "0"
		if text == "" {
			empty = "1"
		}
		switch what {
		case "slice", "set":
			return c.Drv.Ask("ps " + what + " " + empty + " " + strings.Join(toks, " "))
		case "map":
			return c.Drv.Ask("ps map " + strings.Join(toks, " "))
		default:
			return c.Drv.Ask("ps mmap " + strings.Join(toks, " "))
		}
	}
	// the model reports sets and maps in insertion order; canonicalise both sides by sorting
	canonRes := func(what, s string) string {
		if !strings.HasPrefix(s, "ok ") || s == "ok ." {
			return s
		}
		parts := strings.Split(s[3:], ",")
		if what == "set" || what == "map" {
			sort.Strings(parts)
		}
		if what == "mmap" {
			sort.SliceStable(parts, func(i, j int) bool { return strings.SplitN(parts[i], "=", 2)[0] < strings.SplitN(parts[j], "=", 2)[0] })
		}
		return "ok " + strings.Join(parts, ",")
	}
	// strings for stream 3: 15% are not valid UTF-8, or hold non-printable non-ASCII characters, and nothing else that
	// needs escaping (no control character, quote or backslash): Go quoting writes them as \xNN / \uNNNN
	genStr := func(r *RNG) string {
		if !r.Chance(15) {
			return genStr(r)
		}
		res.Count("coll/string with invalid UTF-8 or non-printable non-ASCII")
		base := []string{"caf\xe9", "\xff", "\x80tail", "head\xe2\x82", "zero\u200bwidth", "a\u00a0b", "\ufeffbom", "line\u2028sep", "\xc0\xaf", "k\xfe", "Zo\xeb", "\xed\xa0\x80"}[r.Intn(12)]
		if r.Chance(40) {
			base += []string{"a", "z9", "-x", "é"}[r.Intn(4)]
		}
		return base
	}
	// character-level tie (ASCII texts): the Lean scanner model (text/scanner as configured by the two split functions,
	// one character of look-ahead, strconv.Unquote on string tokens) must yield the token stream the real scanner produced;
	// the real log stops early when the split loop returned an error, so it is a prefix that must be complete when it ends
	// in EOF ("e") or in a scanner error ("x")
	isASCII := func(s string) bool {
		for i := 0; i < len(s); i++ {
			if s[i] >= 0x80 {
				return false
			}
		}
		return true
	}
	scanTie := func(what, text string, toks []string, cs map[string]any) {
		if !isASCII(text) || text == "" {
			res.Count("scan-model/skipped: non-ASCII or empty text")
			return
		}
		mode := "slice"
		if what == "map" || what == "mmap" {
			mode = "map"
		}
		reply := c.Drv.Ask("ps scan " + mode + " " + hexEnc(text))
		if reply == "ood" {
			res.Count("scan-model/outside: an escape denotes a non-ASCII value")
			return
		}
		if !strings.HasPrefix(reply, "toks") {
			res.Add(Finding{Kind: "disagreement", What: "scanner model: unexpected reply", Case: cs, Model: reply})
			return
		}
		mt := strings.Fields(reply)[1:]
		ok := len(toks) <= len(mt)
		for i := 0; ok && i < len(toks); i++ {
			ok = toks[i] == mt[i]
		}
		if ok && len(toks) > 0 && (toks[len(toks)-1] == "e" || toks[len(toks)-1] == "x") {
			ok = len(toks) == len(mt)
		}
		res.Count("scan-model/compared/" + mode)
		if len(mt) > 0 {
			res.Count("scan-model/ends-in/" + mt[len(mt)-1])
		}
		if !ok {
			res.Add(Finding{Kind: "disagreement", What: "character-level scanner model != token stream of the real text/scanner + strconv.Unquote", Case: cs,
				Observed: strings.Join(toks, " "), Model: strings.Join(mt, " ")})
		}
	}
	// end to end: the model's text-to-value functions (the ones the C15_*_text theorems are about) against the parser
	textTie := func(what, text, impl string, cs map[string]any) {
		if !isASCII(text) {
			return
		}
		m := c.Drv.Ask("ps text " + what + " " + hexEnc(text))
		if m == "ood" {
			res.Count("text-model/outside")
			return
		}
		res.Count("text-model/compared/" + what + "/" + strings.SplitN(m, " ", 2)[0])
		if canonRes(what, impl) != canonRes(what, m) {
			res.Add(Finding{Kind: "disagreement", What: "text-to-value model (scanner model + state machine) != implementation", Case: cs, Observed: impl, Model: m})
		}
	}
	quoteTie := func(z string) {
		if !isASCII(z) {
			return
		}
		res.Count("quote-model/compared")
		if m, want := c.Drv.Ask("ps quote "+hexEnc(z)), "ok "+hexEnc(strconv.Quote(z)); m != want {
			res.Add(Finding{Kind: "disagreement", What: "quote model != strconv.Quote", Case: map[string]any{"string": hexEnc(z)}, Observed: want, Model: m})
		}
	}
	// strconv.Quote on ANY string, by items: the harness splits the string with the real utf8 / strconv.IsPrint, the model
	// writes what Quote writes per item (Model/QuoteItems.lean); and the model's string-literal scanner + unquoter on the
	// quoted BYTES (non-ASCII where a printable rune is written verbatim) against the real scanner + strconv.Unquote
	itemsTie := func(z string) {
		var items []string
		for k := 0; k < len(z); {
			rn, w := utf8.DecodeRuneInString(z[k:])
			switch {
			case z[k] < 0x80:
				items = append(items, fmt.Sprintf("a%d", z[k]))
			case rn == utf8.RuneError && w == 1:
				items = append(items, fmt.Sprintf("b%d", z[k]))
			case strconv.IsPrint(rn):
				items = append(items, fmt.Sprintf("p%d", rn))
			default:
				items = append(items, fmt.Sprintf("e%d", rn))
			}
			k += w
		}
		q := strconv.Quote(z)
		cs := map[string]any{"stream": "quote-items", "string": hexEnc(z), "items": strings.Join(items, " ")}
		res.Count("quote-items/compared")
		if m, want := c.Drv.Ask(strings.TrimSpace("ps qitems "+strings.Join(items, " "))), "ok "+hexEnc(q)+" "+hexEnc(z); m != want {
			res.Add(Finding{Kind: "disagreement", What: "quote-items model != strconv.Quote (or the items' bytes are not the string)", Case: cs, Observed: want, Model: m})
		}
		tail := []string{"", ",x", " , \"y\"", ":v"}[r.Intn(4)]
		text := q + tail
		_, toks := run("slice", text)
		if len(toks) > 0 {
			want := fmt.Sprintf("ok %s %d", toks[0], len(tail))
			if m := c.Drv.Ask("ps unqtok " + hexEnc(text)); m != want {
				res.Add(Finding{Kind: "disagreement", What: "string-literal scanner + unquoter model on the quoted bytes != real scanner + strconv.Unquote", Case: cs, Observed: want, Model: m})
			}
		}
	}
	for i := 0; i < n3; i++ {
		what := []string{"slice", "set", "map", "mmap"}[r.Intn(4)]
		size := r.Intn(5)
		if r.Chance(12) {
			size = r.Intn(41)
		}
		var text, want, kid string
		switch what {
		case "slice":
			v := make([]string, size)
			for j := range v {
				v[j] = genStr(r)
			}
			text = flaghelper.NewStringSliceFlag(&v).String()
			want = "ok " + hexList(v)
		case "set":
			m := map[string]struct{}{}
			for j := 0; j < size; j++ {
				m[genStr(r)] = struct{}{}
			}
			text = flaghelper.NewStringSetFlag(&m).String()
			want = "ok " + hexList(sortedSet(m))
		case "map":
			m := map[string]string{}
			for j := 0; j < size; j++ {
				m[genStr(r)] = genStr(r)
			}
			text = flaghelper.NewMapStringStringFlag(&m).String()
			want = "ok " + pairsStr(m)
			if _, ok := m[""]; ok {
				kid = "D13b-empty-map-key"
			}
		default:
			m := map[string][]string{}
			for j := 0; j < size; j++ {
				k := genStr(r)
				nv := r.Intn(3)
				if r.Chance(85) && nv == 0 {
					nv = 1
				}
				vs := make([]string, nv)
				for q := range vs {
					vs[q] = genStr(r)
				}
				m[k] = vs
			}
			text = flaghelper.NewMapStringStringSliceFlag(&m).String()
			want = "ok " + multiStr(m)
			for k, vs := range m {
				if len(vs) == 0 {
					kid = "D13c-empty-slice-value"
				}
				if k == "" && len(vs) > 0 && kid == "" {
					kid = "D13b-empty-map-key"
				}
			}
		}
		impl, toks := run(what, text)
		model := modelOf(what, text, toks)
		cs := map[string]any{"stream": what, "printed": text, "tokens": len(toks)}
		res.Count("coll/" + what + "/" + strings.SplitN(impl, " ", 2)[0])
		if canonRes(what, impl) != canonRes(what, model) {
			res.Add(Finding{Kind: "disagreement", What: "collection parser: state-machine model on the real token stream != implementation", Case: cs, Observed: impl, Model: model})
		}
		scanTie(what, text, toks, cs)
		textTie(what, text, impl, cs)
		quoteTie(genStr(r))
		itemsTie(genStr(r))
		if canonRes(what, impl) != canonRes(what, want) {
			if kid != "" && isKnown("C15", kid) && impl == model {
				res.Add(Finding{Kind: "known", KnownID: kid, What: "printed form does not parse back to the value", Case: cs, Expected: want, Observed: impl})
			} else {
				res.Add(Finding{Kind: "violation", What: "collection does not parse back from its printed form", Case: cs, Expected: want, Observed: impl})
			}
		}
		res.Case("3|"+what+"|"+text, size >= 2, cs)
	}
	for i := 0; i < n5; i++ {
		what := []string{"slice", "set", "map", "mmap"}[r.Intn(4)]
		text := genText(r, r.Intn(14))
		if r.Chance(40) {
			// near-valid text
			parts := make([]string, 1+r.Intn(4))
			for j := range parts {
				p := strconv.Quote(genStr(r))
				if r.Chance(40) {
					p = []string{"a", "b1", "x.y", "7", "1.5", "-3", "$v", "%d"}[r.Intn(8)]
				}
				if what == "map" || what == "mmap" {
					p += ":" + []string{"v", `"w"`, "1", "", `"a,b"`}[r.Intn(5)]
				}
				parts[j] = p
			}
			text = strings.Join(parts, []string{",", ", ", " ,", ",,"}[r.Intn(4)])
		}
		var impl string
		var toks []string
		pn := catch(func() { impl, toks = run(what, text) })
		cs := map[string]any{"stream": "arbitrary-" + what, "text": text}
		if pn != "" {
			res.Add(Finding{Kind: "violation", What: "collection parser panicked: " + pn, Case: cs})
			continue
		}
		model := modelOf(what, text, toks)
		res.Count("arb/" + what + "/" + strings.SplitN(impl, " ", 2)[0])
		if canonRes(what, impl) != canonRes(what, model) {
			res.Add(Finding{Kind: "disagreement", What: "collection parser on arbitrary text: state-machine model on the real token stream != implementation", Case: cs, Observed: impl, Model: model})
		}
		scanTie(what, text, toks, cs)
		textTie(what, text, impl, cs)
		res.Case("5|"+what+"|"+text, len(toks) >= 2, cs)
	}

	// ---- stream 9: escape-rich ASCII text (string, character and raw literals with every escape form, valid and broken;
	// NUL characters; unterminated literals) through the four collection parsers: the real token stream against the
	// character-level scanner model, and the state machines on that stream against the implementation
	n9 := c.scale(4000, 300000)
	genLit := func() string {
		q := []byte{'"', '"', '"', '\'', '`'}[r.Intn(5)]
		b := []byte{q}
		for k, n := 0, r.Intn(5); k < n; k++ {
			switch x := r.Intn(100); {
			case x < 35:
				b = append(b, "abzAZ09 .:,-_/$%{}="[r.Intn(len("abzAZ09 .:,-_/$%{}="))])
			case x < 45:
				b = append(b, byte(1+r.Intn(31))) // control characters incl. tab, CR, LF
			case x < 50:
				b = append(b, '\'', '"', '`', 0x7f, 0)
				b = b[:len(b)-1-r.Intn(4)]
			case q == '`':
				b = append(b, "\\\r\n x"[r.Intn(5)])
			default:
				b = append(b, '\\')
				const escs = "abfnrtv\\'\"xxuU0123789zZ "
				e := escs[r.Intn(len(escs))]
				b = append(b, e)
				nd := map[byte]int{'x': 2, 'u': 4, 'U': 8, '0': 2, '1': 2, '2': 2, '3': 2}[e]
				if r.Chance(15) {
					nd = r.Intn(nd + 2)
				}
				for d := 0; d < nd; d++ {
					digits := "0123456701234567" + "89abcdefABCDEF"
					switch {
					case e >= '0' && e <= '3' && r.Chance(92):
						b = append(b, digits[r.Intn(8)])
					case (e == 'u' || e == 'U') && d < nd-2 && r.Chance(85):
						b = append(b, '0')
					case r.Chance(4):
						b = append(b, "gG-\"x"[r.Intn(5)])
					default:
						b = append(b, digits[r.Intn(len(digits))])
					}
				}
			}
		}
		if !r.Chance(6) {
			b = append(b, q)
		}
		return string(b)
	}
	for i := 0; i < n9; i++ {
		what := []string{"slice", "set", "map", "mmap"}[r.Intn(4)]
		var sb strings.Builder
		for k, n := 0, 1+r.Intn(4); k < n; k++ {
			if k > 0 {
				sb.WriteString([]string{",", ", ", " ,", ":", ",\t", ""}[r.Intn(6)])
			}
			switch x := r.Intn(10); {
			case x < 6:
				sb.WriteString(genLit())
			case x < 8:
				sb.WriteString([]string{"a", "b1", "x y", "1.5", "-3", "k:v", "a\x00b", "\x00", "{", "=", "\x7f", "\\"}[r.Intn(12)])
			default:
				sb.WriteString(genLit() + ":" + genLit())
			}
		}
		text := sb.String()
		var impl string
		var toks []string
		pn := catch(func() { impl, toks = run(what, text) })
		cs := map[string]any{"stream": "escapes-" + what, "text": text, "hex": hexEnc(text)}
		if pn != "" {
			res.Add(Finding{Kind: "violation", What: "collection parser panicked: " + pn, Case: cs})
			continue
		}
		model := modelOf(what, text, toks)
		res.Count("esc/" + what + "/" + strings.SplitN(impl, " ", 2)[0])
		if canonRes(what, impl) != canonRes(what, model) {
			res.Add(Finding{Kind: "disagreement", What: "collection parser on escape-rich text: state-machine model on the real token stream != implementation", Case: cs, Observed: impl, Model: model})
		}
		scanTie(what, text, toks, cs)
		textTie(what, text, impl, cs)
		res.Case("9|"+what+"|"+text, len(toks) >= 2, cs)
	}

	// ---- stream 10: durations and bools against the Lean models of time.Duration.String / time.ParseDuration /
	// strconv.ParseBool: (a) every generated duration: String() == model, parse.String(String()) == the duration (oracle)
	// == model; (b) duration-like texts (random groups, fractions, units incl. both micro signs, signs, junk, values around
	// 1<<63): parse.String vs model (the model answers "outside" where ParseDuration rounds through float64)
	n10 := c.scale(3000, 300000)
	durT := reflect.TypeOf(time.Duration(0))
	implDur := func(text string) string {
		v, err := parse.String(text, durT)
		if err != nil {
			return "err"
		}
		return fmt.Sprintf("ok %d", int64(*(v.Interface().(*time.Duration))))
	}
	for i := 0; i < n10; i++ {
		var d int64
		switch r.Intn(8) {
		case 0:
			d = []int64{0, 1, -1, 999, 1000, 1001, 999999, 1000000, 999999999, 1000000000, 59999999999, 60000000000, 3599999999999, 3600000000000,
				math.MaxInt64, math.MinInt64, math.MaxInt64 - 1, math.MinInt64 + 1, 1500, 1500000, 90000000000, 100000000, 10, 1000000001}[r.Intn(24)]
		case 1:
			d = int64(r.U64())
		case 2:
			d = int64(r.U64() >> uint(r.Intn(64)))
		case 3:
			d = int64(r.Intn(1000)) * []int64{1, 1000, 1000000, 1000000000, 60000000000, 3600000000000}[r.Intn(6)]
		default:
			d = int64(r.U64()>>uint(1+r.Intn(63))) / []int64{1, 10, 100, 1000, 100000, 10000000}[r.Intn(6)] * []int64{1, 10, 100, 1000, 100000, 10000000}[r.Intn(6)]
			if r.Chance(30) {
				d = -d
			}
		}
		text := time.Duration(d).String()
		cs := map[string]any{"stream": "duration", "nanoseconds": d, "text": text}
		if m, want := c.Drv.Ask(fmt.Sprintf("ps durfmt %d", d)), "ok "+hexEnc(text); m != want {
			res.Add(Finding{Kind: "disagreement", What: "Duration.String model != time.Duration.String", Case: cs, Observed: want, Model: m})
		}
		impl, want := implDur(text), fmt.Sprintf("ok %d", d)
		if impl != want {
			res.Add(Finding{Kind: "violation", What: "duration does not parse back from its text", Case: cs, Expected: want, Observed: impl})
		}
		if m := c.Drv.Ask("ps dur " + hexEnc(text)); m != impl {
			res.Add(Finding{Kind: "disagreement", What: "ParseDuration model != parse.String on a printed duration", Case: cs, Observed: impl, Model: m})
		}
		res.Count("dur/printed")
		res.Case("10|"+text, d != 0, cs)
		// (b) duration-like text
		var sb strings.Builder
		if r.Chance(30) {
			sb.WriteString([]string{"-", "+", "--", " "}[r.Intn(4)])
		}
		for g, ng := 0, 1+r.Intn(3); g < ng; g++ {
			switch r.Intn(6) {
			case 0:
			case 1:
				sb.WriteString([]string{"9223372036854775807", "9223372036854775808", "9223372036854775809", "2562047", "2562048", "153722867", "153722868", "18446744073709551616", "0", "00", "007"}[r.Intn(11)])
			default:
				sb.WriteString(strconv.Itoa(r.Intn([]int{10, 100, 5000, 3000000}[r.Intn(4)])))
			}
			if r.Chance(45) {
				sb.WriteByte('.')
				for k, nk := 0, r.Intn([]int{2, 4, 7, 10, 13, 21}[r.Intn(6)]); k < nk; k++ {
					sb.WriteByte("0000123456789"[r.Intn(13)])
				}
			}
			sb.WriteString([]string{"ns", "us", "µs", "μs", "ms", "s", "m", "h", "h", "s", "", "d", "S", "sec", "m s", "hs", "\xc2s", "n"}[r.Intn(18)])
		}
		t2 := sb.String()
		if r.Chance(8) {
			t2 = []string{"", "0", "-0", "+0", "+", "-", ".", ".s", "-.s", "0s", "1", "s", "1e3s", "1_000s", "١s"}[r.Intn(15)]
		}
		cs2 := map[string]any{"stream": "duration-like text", "text": t2, "hex": hexEnc(t2)}
		impl2 := implDur(t2)
		m2 := c.Drv.Ask("ps dur " + hexEnc(t2))
		if m2 == "ood" {
			res.Count("dur/text/outside the model (inexact fraction)")
		} else {
			res.Count("dur/text/" + strings.SplitN(impl2, " ", 2)[0])
			if m2 != impl2 {
				res.Add(Finding{Kind: "disagreement", What: "ParseDuration model != parse.String on duration-like text", Case: cs2, Observed: impl2, Model: m2})
			}
		}
		res.Case("10b|"+t2, strings.HasPrefix(impl2, "ok"), cs2)
		// bools
		bt := []string{"1", "t", "T", "TRUE", "true", "True", "0", "f", "F", "FALSE", "false", "False", "", "yes", "tRUE", "2", " true", "true ", "on", "FALSE "}[r.Intn(20)]
		bi := "err"
		if v, err := parse.String(bt, reflect.TypeOf(true)); err == nil {
			bi = fmt.Sprintf("ok %v", *(v.Interface().(*bool)))
		}
		if bm := c.Drv.Ask("ps bool " + hexEnc(bt)); bm != bi {
			res.Add(Finding{Kind: "disagreement", What: "ParseBool model != parse.String", Case: map[string]any{"text": bt}, Observed: bi, Model: bm})
		}
	}

	// ---- stream 11: the texts the environment-source generator (C11) writes for collection leaves - bare words, numbers,
	// floats, durations, quoted strings, malformed ones - through the scanner model and the text-to-value model
	n11 := c.scale(2500, 200000)
	collTypes := []reflect.Type{reflect.TypeOf([]string{}), reflect.TypeOf([]int8{}), reflect.TypeOf([]uint16{}), reflect.TypeOf([]float64{}),
		reflect.TypeOf([]time.Duration{}), reflect.TypeOf([]bool{}), reflect.TypeOf(map[string]int{}), reflect.TypeOf(map[string]string{}),
		reflect.TypeOf(map[string]struct{}{}), reflect.TypeOf(map[string][]string{}), reflect.TypeOf(map[int]bool{})}
	for i := 0; i < n11; i++ {
		t := collTypes[r.Intn(len(collTypes))]
		var text string
		if pn := catch(func() { text, _ = genEnvValue(r, t) }); pn != "" {
			continue
		}
		what := []string{"slice", "set", "map", "mmap"}[r.Intn(4)]
		var impl string
		var toks []string
		pn := catch(func() { impl, toks = run(what, text) })
		cs := map[string]any{"stream": "env-style-" + what, "type": t.String(), "text": text, "hex": hexEnc(text)}
		if pn != "" {
			res.Add(Finding{Kind: "violation", What: "collection parser panicked: " + pn, Case: cs})
			continue
		}
		res.Count("envstyle/" + what + "/" + strings.SplitN(impl, " ", 2)[0])
		if model := modelOf(what, text, toks); canonRes(what, impl) != canonRes(what, model) {
			res.Add(Finding{Kind: "disagreement", What: "collection parser on env-style text: state-machine model on the real token stream != implementation", Case: cs, Observed: impl, Model: model})
		}
		scanTie(what, text, toks, cs)
		textTie(what, text, impl, cs)
		res.Case("11|"+what+"|"+text, len(toks) >= 2, cs)
	}

	// ---- stream 4: floats, complex, bool, duration, string (oracle only)
	f32, f64 := reflect.TypeOf(float32(0)), reflect.TypeOf(float64(0))
	for i := 0; i < n4; i++ {
		cs := map[string]any{"stream": "scalar"}
		switch r.Intn(6) {
		case 0:
			x := math.Float64frombits(r.U64())
			if r.Chance(20) {
				x = []float64{0, math.MaxFloat64, -math.MaxFloat64, math.SmallestNonzeroFloat64, math.Inf(1), math.Inf(-1), 1e308, 4.9e-324}[r.Intn(8)]
			}
			if math.IsNaN(x) {
				continue
			}
			text := strconv.FormatFloat(x, 'g', -1, 64)
			v, err := parse.String(text, f64)
			cs["text"], cs["kind"] = text, "float64"
			if err != nil || *(v.Interface().(*float64)) != x {
				res.Add(Finding{Kind: "violation", What: "float64 does not parse back from its text", Case: cs})
			}
			res.Case("4|f64|"+text, x != 0 && !math.IsInf(x, 0), cs)
		case 1:
			x := math.Float32frombits(uint32(r.U64()))
			if r.Chance(20) {
				x = []float32{0, math.MaxFloat32, -math.MaxFloat32, math.SmallestNonzeroFloat32, float32(math.Inf(1))}[r.Intn(5)]
			}
			if x != x {
				continue
			}
			text := strconv.FormatFloat(float64(x), 'g', -1, 32)
			v, err := parse.String(text, f32)
			cs["text"], cs["kind"] = text, "float32"
			if err != nil || *(v.Interface().(*float32)) != x {
				res.Add(Finding{Kind: "violation", What: "float32 does not parse back from its text", Case: cs})
			}
			// just outside the float32 range must be rejected
			big32 := strconv.FormatFloat(float64(math.MaxFloat32)*(1.0001+float64(r.Intn(100))), 'g', -1, 64)
			if _, err := parse.String(big32, f32); err == nil {
				res.Add(Finding{Kind: "violation", What: "float literal outside the float32 range was accepted", Case: map[string]any{"text": big32}})
			}
			if _, err := parse.String("1e400", f64); err == nil {
				res.Add(Finding{Kind: "violation", What: "float literal outside the float64 range was accepted", Case: map[string]any{"text": "1e400"}})
			}
			res.Case("4|f32|"+text, x != 0, cs)
		case 2:
			x := complex(float64(r.Intn(2000)-1000)/8, float64(r.Intn(2000)-1000)/16)
			text := strconv.FormatComplex(x, 'g', -1, 128)
			v, err := parse.String(text, reflect.TypeOf(complex128(0)))
			cs["text"], cs["kind"] = text, "complex128"
			if err != nil || *(v.Interface().(*complex128)) != x {
				res.Add(Finding{Kind: "violation", What: "complex128 does not parse back from its text", Case: cs})
			}
			if _, err := parse.String("(1e39+1i)", reflect.TypeOf(complex64(0))); err == nil {
				res.Add(Finding{Kind: "violation", What: "complex literal outside the complex64 range was accepted", Case: cs})
			}
			res.Case("4|c128|"+text, x != 0, cs)
		case 3:
			b := r.Bool()
			text := strconv.FormatBool(b)
			v, err := parse.String(text, reflect.TypeOf(false))
			cs["text"], cs["kind"] = text, "bool"
			if err != nil || *(v.Interface().(*bool)) != b {
				res.Add(Finding{Kind: "violation", What: "bool does not parse back from its text", Case: cs})
			}
			res.Case("4|bool|"+text, true, cs)
		case 4:
			d := time.Duration(int64(r.U64()))
			if r.Chance(30) {
				d = time.Duration(r.Intn(1000000)) * time.Millisecond
			}
			text := d.String()
			v, err := parse.String(text, reflect.TypeOf(time.Duration(0)))
			cs["text"], cs["kind"] = text, "duration"
			if err != nil || *(v.Interface().(*time.Duration)) != d {
				res.Add(Finding{Kind: "violation", What: "duration does not parse back from its text", Case: cs})
			}
			res.Case("4|dur|"+text, d != 0, cs)
		default:
			s := genStr(r)
			v, err := parse.String(s, reflect.TypeOf(""))
			cs["text"], cs["kind"] = s, "string"
			if err != nil || *(v.Interface().(*string)) != s {
				res.Add(Finding{Kind: "violation", What: "string does not come back unchanged", Case: cs})
			}
			res.Case("4|str|"+s, s != "", cs)
		}
	}
}

// intSliceVia prints the values with the matching flag helper and returns a function that parses text
// back through a fresh helper's Set.
func intSliceVia[I int8 | int16 | int32 | int64 | int | uint8 | uint16 | uint32 | uint64 | uint](vals []int64, uvals []uint64) (string, func(string) (string, bool)) {
	var s []I
	for _, v := range vals {
		s = append(s, I(v))
	}
	for _, v := range uvals {
		s = append(s, I(v))
	}
	if s == nil {
		s = []I{}
	}
	var printed string
	var zero I
	signed := zero-1 < zero
	if signed {
		printed = intHelperString(&s)
	} else {
		printed = uintHelperString(&s)
	}
	return printed, func(t string) (string, bool) {
		var dst []I
		var err error
		if signed {
			err = intHelperSet(&dst, t)
		} else {
			err = uintHelperSet(&dst, t)
		}
		if err != nil {
			return "err", false
		}
		return joinInts(dst), true
	}
}

func intHelperString(p any) string {
	switch s := p.(type) {
	case *[]int8:
		return flaghelper.NewSignedIntegralSlice(s).String()
	case *[]int16:
		return flaghelper.NewSignedIntegralSlice(s).String()
	case *[]int32:
		return flaghelper.NewSignedIntegralSlice(s).String()
	case *[]int64:
		return flaghelper.NewSignedIntegralSlice(s).String()
	case *[]int:
		return flaghelper.NewSignedIntegralSlice(s).String()
	}
	return "?"
}

func intHelperSet(p any, t string) error {
	switch s := p.(type) {
	case *[]int8:
		return flaghelper.NewSignedIntegralSlice(s).Set(t)
	case *[]int16:
		return flaghelper.NewSignedIntegralSlice(s).Set(t)
	case *[]int32:
		return flaghelper.NewSignedIntegralSlice(s).Set(t)
	case *[]int64:
		return flaghelper.NewSignedIntegralSlice(s).Set(t)
	case *[]int:
		return flaghelper.NewSignedIntegralSlice(s).Set(t)
	}
	return fmt.Errorf("?")
}

func uintHelperString(p any) string {
	switch s := p.(type) {
	case *[]uint8:
		return flaghelper.NewUnsignedIntegralSlice(s).String()
	case *[]uint16:
		return flaghelper.NewUnsignedIntegralSlice(s).String()
	case *[]uint32:
		return flaghelper.NewUnsignedIntegralSlice(s).String()
	case *[]uint64:
		return flaghelper.NewUnsignedIntegralSlice(s).String()
	case *[]uint:
		return flaghelper.NewUnsignedIntegralSlice(s).String()
	}
	return "?"
}

func uintHelperSet(p any, t string) error {
	switch s := p.(type) {
	case *[]uint8:
		return flaghelper.NewUnsignedIntegralSlice(s).Set(t)
	case *[]uint16:
		return flaghelper.NewUnsignedIntegralSlice(s).Set(t)
	case *[]uint32:
		return flaghelper.NewUnsignedIntegralSlice(s).Set(t)
	case *[]uint64:
		return flaghelper.NewUnsignedIntegralSlice(s).Set(t)
	case *[]uint:
		return flaghelper.NewUnsignedIntegralSlice(s).Set(t)
	}
	return fmt.Errorf("?")
}

func joinInts[I int8 | int16 | int32 | int64 | int | uint8 | uint16 | uint32 | uint64 | uint](vs []I) string {
	if len(vs) == 0 {
		return "."
	}
	p := make([]string, len(vs))
	for i, v := range vs {
		p[i] = fmt.Sprint(v)
	}
	return strings.Join(p, ",")
}

func sortedSet(m map[string]struct{}) []string {
	out := make([]string, 0, len(m))
	for k := range m {
		out = append(out, k)
	}
	sort.Strings(out)
	return out
}

func pairsStr(m map[string]string) string {
	if len(m) == 0 {
		return "."
	}
	ks := make([]string, 0, len(m))
	for k := range m {
		ks = append(ks, k)
	}
	sort.Strings(ks)
	p := make([]string, len(ks))
	for i, k := range ks {
		p[i] = hexEnc(k) + "=" + hexEnc(m[k])
	}
	return strings.Join(p, ",")
}

func multiStr(m map[string][]string) string {
	ks := make([]string, 0, len(m))
	for k := range m {
		ks = append(ks, k)
	}
	sort.Strings(ks)
	var p []string
	for _, k := range ks {
		for _, v := range m[k] {
			p = append(p, hexEnc(k)+"="+hexEnc(v))
		}
	}
	if len(p) == 0 {
		return "."
	}
	return strings.Join(p, ",")
}
