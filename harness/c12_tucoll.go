package main

// C12, text-unmarshalable leaves of SLICE and MAP kind (net.IP is the everyday one): Pointerify leaves slices and
// maps as they are, so for these leaves the flag's value (a pointer to the unmarshaler) and the field (the slice / map
// itself) differ by one pointer level.  Both flag packages; leaves by value and behind a user pointer, top level and
// nested; any subset of the flags given, in any order; template defaults; unparsable text.  Oracle only (the flag
// model's "tu" class carries text-unmarshalable values as their text, whatever their kind).

import (
	"context"
	"errors"
	stdflag "flag"
	"fmt"
	"io"
	"net"
	"sort"
	"strings"

	spflag "github.com/spf13/pflag"
	"github.com/vimeo/dials"
	dflag "github.com/vimeo/dials/sources/flag"
	dpflag "github.com/vimeo/dials/sources/pflag"
)

// a list written as a;b;c
type c12CSV []string

func (c *c12CSV) UnmarshalText(b []byte) error {
	if strings.Contains(string(b), "!") {
		return errors.New("c12CSV: '!' is not allowed")
	}
	*c = nil
	if len(b) > 0 {
		*c = strings.Split(string(b), ";")
	}
	return nil
}
func (c c12CSV) MarshalText() ([]byte, error) { return []byte(strings.Join(c, ";")), nil }

// a map written as k=v;k=v
type c12KV map[string]string

func (m *c12KV) UnmarshalText(b []byte) error {
	out := c12KV{}
	for _, p := range strings.Split(string(b), ";") {
		if p == "" {
			continue
		}
		kv := strings.SplitN(p, "=", 2)
		if len(kv) != 2 {
			return fmt.Errorf("c12KV: %q is not k=v", p)
		}
		out[kv[0]] = kv[1]
	}
	*m = out
	return nil
}
func (m c12KV) MarshalText() ([]byte, error) {
	ks := make([]string, 0, len(m))
	for k := range m {
		ks = append(ks, k)
	}
	sort.Strings(ks)
	ps := make([]string, len(ks))
	for i, k := range ks {
		ps[i] = k + "=" + m[k]
	}
	return []byte(strings.Join(ps, ";")), nil
}

type c12TCNet struct {
	Gateway net.IP
	Routes  c12CSV `dials:"routes"`
}

type c12TCCfg struct {
	Addr   net.IP
	Hosts  c12CSV
	Labels c12KV
	Backup *net.IP
	Extra  *c12CSV
	Net    c12TCNet
	Name   string
}

type c12TCLeaf struct {
	flag string
	get  func(*c12TCCfg) string // canonical text of the leaf in a final config
	gen  func(r *RNG) string    // a valid text
	bad  string                 // a text its UnmarshalText rejects
}

func c12ipText(ip net.IP) string {
	if len(ip) == 0 {
		return ""
	}
	return ip.String()
}

func c12TCLeaves() []c12TCLeaf {
	ip := func(r *RNG) string { return fmt.Sprintf("10.%d.%d.%d", r.Intn(256), r.Intn(256), 1+r.Intn(254)) }
	csv := func(r *RNG) string {
		n := 1 + r.Intn(3)
		p := make([]string, n)
		for i := range p {
			p[i] = fmt.Sprintf("h%d", r.Intn(100))
		}
		return strings.Join(p, ";")
	}
	kv := func(r *RNG) string { return fmt.Sprintf("a=%d;b=x%d", r.Intn(100), r.Intn(100)) }
	csvText := func(c c12CSV) string { b, _ := c.MarshalText(); return string(b) }
	return []c12TCLeaf{
		{"addr", func(c *c12TCCfg) string { return c12ipText(c.Addr) }, ip, "not-an-ip"},
		{"hosts", func(c *c12TCCfg) string { return csvText(c.Hosts) }, csv, "a!b"},
		{"labels", func(c *c12TCCfg) string { b, _ := c.Labels.MarshalText(); return string(b) }, kv, "novalue"},
		{"backup", func(c *c12TCCfg) string {
			if c.Backup == nil {
				return "<nil>"
			}
			return c12ipText(*c.Backup)
		}, ip, "1.2.3"},
		{"extra", func(c *c12TCCfg) string {
			if c.Extra == nil {
				return "<nil>"
			}
			return csvText(*c.Extra)
		}, csv, "!"},
		{"net-gateway", func(c *c12TCCfg) string { return c12ipText(c.Net.Gateway) }, ip, "300.1.1.1"},
		{"net-routes", func(c *c12TCCfg) string { return csvText(c.Net.Routes) }, csv, "x!"},
		{"name", func(c *c12TCCfg) string { return c.Name }, func(r *RNG) string { return fmt.Sprintf("n%d", r.Intn(1000)) }, ""},
	}
}

func c12TextCollections(c *Ctx, n int) {
	r := c.RNG
	res := c.Res
	leaves := c12TCLeaves()
	for i := 0; i < n; i++ {
		pk := []string{"std", "pflag"}[r.Intn(2)]
		withDefaults := r.Bool()
		mkDefaults := func() *c12TCCfg {
			d := &c12TCCfg{}
			if withDefaults {
				b := net.ParseIP("192.168.0.9")
				e := c12CSV{"e0"}
				d.Addr, d.Hosts, d.Labels, d.Backup, d.Extra = net.ParseIP("192.168.0.1"), c12CSV{"d0", "d1"}, c12KV{"d": "0"}, &b, &e
				d.Net = c12TCNet{Gateway: net.ParseIP("192.168.0.254"), Routes: c12CSV{"r0"}}
				d.Name = "dflt"
			}
			return d
		}
		want := map[string]string{}
		for _, l := range leaves {
			want[l.flag] = l.get(mkDefaults())
		}
		var args []string
		given := map[string]string{}
		badFlag := ""
		for _, l := range leaves {
			if !r.Chance(50) {
				continue
			}
			text := l.gen(r)
			if badFlag == "" && l.bad != "" && r.Chance(8) {
				text, badFlag = l.bad, l.flag
			}
			given[l.flag] = text
			want[l.flag] = text
			dash := "-"
			if pk == "pflag" {
				dash = "--"
			}
			if r.Bool() {
				args = append(args, dash+l.flag+"="+text)
			} else {
				args = append(args, dash+l.flag, text)
			}
		}
		cs := map[string]any{"stream": "text-unmarshalable leaves of slice / map kind", "package": pk, "args": args, "defaults": withDefaults}
		var src dials.Source
		var newErr error
		names := map[string]string{} // flag name -> advertised default
		pn := catch(func() {
			if pk == "std" {
				s, err := dflag.NewSetWithArgs(dflag.DefaultFlagNameConfig(), mkDefaults(), args)
				if newErr = err; err == nil {
					src = s
					s.Flags.SetOutput(io.Discard)
					s.Flags.VisitAll(func(f *stdflag.Flag) { names[f.Name] = f.DefValue })
				}
			} else {
				s, err := dpflag.NewSetWithArgs(dpflag.DefaultFlagNameConfig(), mkDefaults(), args)
				if newErr = err; err == nil {
					src = s
					s.Flags.SetOutput(io.Discard)
					s.Flags.VisitAll(func(f *spflag.Flag) { names[f.Name] = f.DefValue })
				}
			}
		})
		res.Count("tucoll/" + pk)
		if pn != "" || newErr != nil {
			res.Add(Finding{Kind: "violation", What: "NewSetWithArgs failed on a config type whose leaves are all flag-supported: " + pn + fmt.Sprint(newErr), Case: cs})
			continue
		}
		// one flag per leaf, advertising the template's value
		for _, l := range leaves {
			def, ok := names[l.flag]
			wantDef := l.get(mkDefaults())
			if wantDef == "<nil>" {
				wantDef = ""
			}
			if !ok {
				res.Add(Finding{Kind: "violation", What: fmt.Sprintf("no flag named %q is registered", l.flag), Case: cs, Observed: fmt.Sprint(names)})
			} else if def != wantDef {
				res.Add(Finding{Kind: "violation", What: fmt.Sprintf("flag %q: the advertised default is not the template's value", l.flag), Case: cs, Expected: wantDef, Observed: def})
			}
		}
		var d *dials.Dials[c12TCCfg]
		var err error
		pn = catch(func() { d, err = dials.Config(context.Background(), mkDefaults(), src) })
		switch {
		case pn != "":
			res.Add(Finding{Kind: "violation", What: "the flag source panicked: " + pn, Case: cs})
		case badFlag != "":
			if err == nil {
				res.Add(Finding{Kind: "violation", What: fmt.Sprintf("flag %q was given a text its UnmarshalText rejects: no error", badFlag), Case: cs})
			}
		case err != nil:
			res.Add(Finding{Kind: "violation", What: "the flag source failed although every given flag is valid: " + err.Error(), Case: cs})
		default:
			for _, l := range leaves {
				if got := l.get(d.View()); got != want[l.flag] {
					what := fmt.Sprintf("leaf of flag %q: got %q, want %q (the text given on the command line)", l.flag, got, want[l.flag])
					if _, g := given[l.flag]; !g {
						what = fmt.Sprintf("leaf of flag %q was not given on the command line: got %q, want the default %q", l.flag, got, want[l.flag])
					}
					res.Add(Finding{Kind: "violation", What: what, Case: cs})
					break
				}
			}
		}
		res.Case(fmt.Sprintf("tucoll|%s|%v|%v", pk, args, withDefaults), len(given) >= 2, cs)
	}
}
