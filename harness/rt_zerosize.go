package main

// C06, implementation-only stream: a config type of size ZERO (struct{}, a struct of zero-length arrays).  The Go
// runtime gives every zero-size allocation the same address, so "a new *T" is not "a different pointer": versions are
// still versions - each installed one is announced to OnNewConfig and to every registered callback, in order.

import (
	"context"
	"fmt"
	"reflect"
	"sync"
	"time"

	"github.com/vimeo/dials"
)

type zsEmpty struct{}
type zsArr struct {
	A [0]int
	B struct{}
}

type zsSrc struct {
	wa  dials.WatchArgs
	typ *dials.Type
}

func (s *zsSrc) Value(_ context.Context, t *dials.Type) (reflect.Value, error) {
	return reflect.New(t.Type()).Elem(), nil
}
func (s *zsSrc) Watch(_ context.Context, t *dials.Type, wa dials.WatchArgs) error {
	s.wa, s.typ = wa, t
	return nil
}

func zsRun[T any](c *Ctx, name string, installs int) {
	res := c.Res
	cs := map[string]any{"stream": "zero-size config type", "type": name, "installs": installs}
	var mu sync.Mutex
	global, registered := 0, 0
	var serials []uint64
	ctx, cancel := context.WithCancel(context.Background())
	defer cancel()
	src := &zsSrc{}
	var zero T
	d, err := dials.Params[T]{OnNewConfig: func(context.Context, *T, *T) { mu.Lock(); global++; mu.Unlock() }}.Config(ctx, &zero, src)
	if err != nil {
		res.Add(Finding{Kind: "violation", What: "Config failed: " + err.Error(), Case: cs})
		return
	}
	_, ser := d.ViewVersion()
	unreg := d.RegisterCallback(ctx, ser, func(_ context.Context, _, _ *T) { mu.Lock(); registered++; mu.Unlock() })
	for i := 0; i < installs; i++ {
		rctx, rc := context.WithTimeout(ctx, 5*time.Second)
		err := src.wa.BlockingReportNewValue(rctx, reflect.New(src.typ.Type()).Elem())
		rc()
		if err != nil {
			res.Add(Finding{Kind: "violation", What: "blocking report failed: " + err.Error(), Case: cs})
			return
		}
		_, s := d.ViewVersion()
		serials = append(serials, dials.VerifCfgSerial(s))
	}
	// the unregister call is processed by the callback goroutine after everything queued before it
	uctx, uc := context.WithTimeout(ctx, 5*time.Second)
	ok := unreg != nil && unreg(uctx)
	uc()
	mu.Lock()
	g, rg := global, registered
	mu.Unlock()
	for i, s := range serials {
		if s != dials.VerifCfgSerial(ser)+uint64(i+1) {
			res.Add(Finding{Kind: "violation", What: fmt.Sprintf("install %d has serial %d, want %d", i+1, s, dials.VerifCfgSerial(ser)+uint64(i+1)), Case: cs})
			return
		}
	}
	if !ok {
		res.Add(Finding{Kind: "violation", What: "unregister did not return true while the monitor is alive", Case: cs})
		return
	}
	if g != installs || rg != installs {
		res.Add(Finding{Kind: "violation", What: fmt.Sprintf("%d versions were installed, but OnNewConfig ran %d times and the registered callback %d times: installed versions were skipped", installs, g, rg), Case: cs})
	}
	res.Count("zero-size/" + name)
	res.Case(fmt.Sprintf("Z|%s|%d", name, installs), true, cs)
}

func rtZeroSize(c *Ctx, n int) {
	for i := 0; i < n; i++ {
		k := 1 + c.RNG.Intn(6)
		if i%2 == 0 {
			zsRun[zsEmpty](c, "struct{}", k)
		} else {
			zsRun[zsArr](c, "struct{ A [0]int; B struct{} }", k)
		}
	}
}
