package main

// C09, implementation-only stream (no model: the model's Verify is a pure function of the config): a
// Verify method that depends on external state.  EnableVerification that succeeded once must stay in
// force: a later call, made while Verify would fail, must neither re-verify nor switch the delay back on.

import (
	"context"
	"errors"
	"fmt"
	"reflect"
	"sync"
	"sync/atomic"
	"time"

	"github.com/vimeo/dials"
)

type reCfg struct {
	V int
}

var (
	reExtFail     atomic.Bool
	reVerifyCalls atomic.Int64
	errReExt      = errors.New("external dependency unavailable")
	errReInvalid  = errors.New("negative value")
)

func (c *reCfg) Verify() error {
	reVerifyCalls.Add(1)
	if reExtFail.Load() {
		return errReExt
	}
	if c.V < 0 {
		return errReInvalid
	}
	return nil
}

type reSrc struct {
	init int
	wa   dials.WatchArgs
	typ  *dials.Type
}

func (s *reSrc) val(t *dials.Type, v int) reflect.Value {
	out := reflect.New(t.Type())
	vv := v
	out.Elem().Field(0).Set(reflect.ValueOf(&vv))
	return out
}
func (s *reSrc) Value(_ context.Context, t *dials.Type) (reflect.Value, error) {
	return s.val(t, s.init), nil
}
func (s *reSrc) Watch(_ context.Context, t *dials.Type, wa dials.WatchArgs) error {
	s.wa, s.typ = wa, t
	return nil
}

func rtReEnable(c *Ctx, n int) {
	r := c.RNG
	res := c.Res
	for i := 0; i < n; i++ {
		suppress := r.Chance(50)
		src := &reSrc{init: 1 + r.Intn(50)}
		var mu sync.Mutex
		var errs []error
		p := dials.Params[reCfg]{DelayInitialVerification: true, CallGlobalCallbacksAfterVerificationEnabled: suppress,
			OnWatchedError: func(_ context.Context, err error, _, _ *reCfg) { mu.Lock(); errs = append(errs, err); mu.Unlock() }}
		reExtFail.Store(false)
		reVerifyCalls.Store(0)
		ctx, cancel := context.WithCancel(context.Background())
		cs := map[string]any{"stream": "re-enable with an impure Verify", "suppress": suppress, "init": src.init}
		viol := func(f string, a ...any) {
			res.Add(Finding{Kind: "violation", What: fmt.Sprintf(f, a...), Case: cs})
		}
		d, err := p.Config(ctx, &reCfg{}, src)
		if err != nil {
			viol("Config with delayed verification failed: %v", err)
			cancel()
			continue
		}
		call := func(f func(context.Context) error) error {
			cctx, cc := context.WithTimeout(ctx, 3*time.Second)
			defer cc()
			return f(cctx)
		}
		var steps []string
		enable := func() error {
			return call(func(cx context.Context) error { _, _, e := d.EnableVerification(cx); return e })
		}
		if e := enable(); e != nil {
			viol("first EnableVerification failed on a valid config: %v", e)
		}
		steps = append(steps, "enable")
		// some accepted updates
		for k := r.Intn(3); k > 0; k-- {
			v := 1 + r.Intn(1000)
			if e := call(func(cx context.Context) error { return src.wa.BlockingReportNewValue(cx, src.val(src.typ, v)) }); e != nil {
				viol("a valid update was rejected after verification was enabled: %v", e)
			}
			steps = append(steps, fmt.Sprintf("report %d", v))
		}
		before := reVerifyCalls.Load()
		good := d.View().V
		// the external dependency goes away; EnableVerification is called again (once or twice)
		reExtFail.Store(true)
		for k := 1 + r.Intn(2); k > 0; k-- {
			if e := enable(); e != nil {
				viol("EnableVerification after verification was already enabled returned an error (%v): it must be a no-op", e)
			}
			steps = append(steps, "enable (Verify would fail now)")
		}
		if got := reVerifyCalls.Load(); got != before {
			viol("a repeated EnableVerification invoked Verify again (%d more calls)", got-before)
		}
		reExtFail.Store(false)
		// an invalid update must still be rejected
		bad := -1 - r.Intn(100)
		e := call(func(cx context.Context) error { return src.wa.BlockingReportNewValue(cx, src.val(src.typ, bad)) })
		steps = append(steps, fmt.Sprintf("report %d", bad))
		cs["steps"] = steps
		if e == nil {
			viol("an invalid update was accepted after EnableVerification had succeeded (verification was switched off again)")
		}
		if d.View().V != good {
			viol("View() shows %d after a rejected update; the last verified value is %d", d.View().V, good)
		}
		cancel()
		deadline := time.Now().Add(2 * time.Second)
		for time.Now().Before(deadline) {
			mu.Lock()
			n := len(errs)
			mu.Unlock()
			if n > 0 {
				break
			}
			time.Sleep(time.Millisecond)
		}
		mu.Lock()
		if len(errs) == 0 && e != nil {
			viol("OnWatchedError was not called for the update rejected after verification was enabled")
		}
		mu.Unlock()
		res.Count("reenable/cases")
		res.Case(fmt.Sprintf("reenable|%v|%v", suppress, steps), true, cs)
	}
}
